// host package for cargo-fuzz; the targets live in fuzz/
