#![no_main]
//! C03 / C06 / C17 monitors under ASan + libFuzzer: bytes -> root text of a two-file workspace, full query sweep.
use libfuzzer_sys::fuzz_target;
use vcheck::core::{Ctx, Tier};
use vcheck::swchecks::{SMode, SwCheck};
use vcheck::ws::Workspace;

use vcheck::swchecks::FUZZ_INC as INC;

fuzz_target!(|data: &[u8]| {
    let text = String::from_utf8_lossy(data);
    if text.len() > 4096 {
        return;
    }
    let w = Workspace { files: vec![("/ws/main.td".into(), format!("include \"inc.td\"\n{}", text)), ("/ws/inc.td".into(), INC.to_string())], root: 0 };
    // VFUZZ_MODE selects the monitor (the check that runs this target judges artifacts with the same one)
    let modes: &[SMode] = match std::env::var("VFUZZ_MODE").as_deref() {
        Ok("totality") => &[SMode::Totality],
        Ok("coherence") => &[SMode::Coherence],
        Ok("ranges") => &[SMode::Ranges],
        _ => &[SMode::Totality, SMode::Coherence, SMode::Ranges],
    };
    for &mode in modes {
        let mut ctx = Ctx::new(Tier::Quick, 0, None);
        SwCheck { mode }.check_state(&w, "fuzz", &mut ctx);
        if let Some(v) = ctx.violations.values().next() {
            panic!("monitor violation {}: {}", v.signature, v.what);
        }
    }
});
