#![no_main]
//! C01 + C02 monitors under ASan + libFuzzer: any monitor violation aborts the process (a libFuzzer artifact).
use libfuzzer_sys::fuzz_target;
use vcheck::core::{Ctx, Tier};

fuzz_target!(|data: &[u8]| {
    let text = String::from_utf8_lossy(data);
    if text.len() > 16_384 {
        return;
    }
    let mut ctx = Ctx::new(Tier::Thorough, 0, None);
    vcheck::synchecks::monitor_lossless(&text, &mut ctx);
    vcheck::synchecks::monitor_totality(&text, &mut ctx);
    if let Some(v) = ctx.violations.values().next() {
        panic!("monitor violation {}: {}", v.signature, v.what);
    }
});
