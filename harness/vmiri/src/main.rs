//! vmiri: a small workload for the Miri interpreter (undefined behaviour, invalid enum values from the
//! u16 -> SyntaxKind transmute, out-of-bounds / use-after-free / uninitialised reads in rowan cursors and
//! green nodes, leaks). No file or environment access: inputs are built in and derived from argv.
//! usage: vmiri <parse|ide> <shard> <nshards> <count> <seed>
use ide::analysis::AnalysisHost;
use ide::file_system::{FileId, FilePath, FilePosition, FileRange, FileSet, FileSystem};
use std::collections::BTreeMap;
use std::path::PathBuf;
use std::sync::Arc;

const LEX: &[&str] = &[
    "class", "def", "let", "in", "include", "multiclass", "defm", "foreach", "if", "then", "else", "defvar", "defset", "assert", "dump", "int", "bits", "list", "string", "code", "a", "Foo",
    "4foo", "0", "42", "-1", "0x1F", "0b101", "\"s\"", "\"a\\\\\"", "\"open", "[{ c }]", "[{ open", "$v", "!add", "!cond", "!foo", "#define M", "#ifdef M", "#ifdef U", "#else", "#endif", "#ifdef",
    "// c\n", "/* c */", "/* /* n */ */", "/* open", " ", "\n", "\r\n", "\u{e9}", "\u{1d11e}", "\u{feff}", "@", "-", "+", "[", "]", "{", "}", "(", ")", "<", ">", ":", ";", ",", ".", "...", "..",
    "=", "?", "#",
];
const PROGRAMS: &[&str] = &[
    "class Foo<int A, int B = 1>: Bar<A, 2>;\n",
    "class Foo<int A> {\n  int B;\n  int C = A;\n  let D = A;\n  field bits<4> E = {0, 1};\n  code F = [{ x }];\n  defvar g = !add(A, 1);\n  assert !eq(A, 1), \"m\";\n}\n",
    "def \"n\" # NAME : Bar;\nlet A = 1, B<1...3> = 0b101 in { class Foo; }\n",
    "multiclass M<int a> : N<a> {\n  def NAME # _x : C<a>;\n  defm _y : N<a>;\n  foreach i = [1, 2] in def _z # i;\n  if a then { def _t; } else { def _e; }\n}\ndefm foo : M<1>;\n",
    "defset list<Base> L = {\n  def F0 : Base<0>;\n}\ndefvar v = Foo<1, \"x\" = 2>.field[0]{1, 2-3};\ndefvar d = (op a, b:$x, $y);\n",
    "#define M\n#ifdef M\nclass InM;\n#else\nclass NotM [ ( \"\n#endif\n#ifndef N\ndef q\n",
    "defvar l = !foreach(x, [1, 2], !add(x, 1));\ndefvar c = !cast<Foo>(\"a\" # b);\ndefvar k = !cond(false: 1, true: 2);\n",
    "class A : A;\nclass B { A a; int y = a.zz; }\nclass C<A a> : C<a>;\n",
];

struct Rng(u64);
impl Rng {
    fn next(&mut self) -> u64 {
        self.0 = self.0.wrapping_mul(6364136223846793005).wrapping_add(1442695040888963407);
        (self.0 >> 33) ^ (self.0 >> 17)
    }
    fn below(&mut self, n: usize) -> usize {
        (self.next() % n as u64) as usize
    }
}

fn lossless(text: &str) -> Result<(), String> {
    let parse = syntax::parse(text);
    let root = parse.syntax_node();
    let mut off = 0usize;
    for el in root.descendants_with_tokens() {
        if let Some(t) = el.as_token() {
            let r = t.text_range();
            if usize::from(r.start()) != off {
                return Err(format!("token at {:?} but previous ended at {}", r, off));
            }
            if t.text() != &text[usize::from(r.start())..usize::from(r.end())] {
                return Err(format!("token text differs at {:?}", r));
            }
            off = usize::from(r.end());
        }
    }
    if off != text.len() || root.text() != text {
        return Err("tree does not reproduce the input".into());
    }
    for e in parse.errors() {
        if e.message.is_empty() || usize::from(e.range.end()) > text.len() {
            return Err(format!("bad syntax error {:?}", e));
        }
    }
    // typed accessors on the same tree
    if let Some(sf) = parse.source_file() {
        if let Some(l) = sf.statement_list() {
            let _ = l.statements().count();
        }
    }
    Ok(())
}

#[derive(Default)]
struct MemFs {
    files: BTreeMap<PathBuf, String>,
    set: FileSet,
    next: u32,
}
impl FileSystem for MemFs {
    fn assign_or_get_file_id(&mut self, path: FilePath) -> FileId {
        match self.set.file_for_path(&path) {
            Some(id) => id,
            None => {
                let id = FileId(self.next);
                self.next += 1;
                self.set.insert(id, path);
                id
            }
        }
    }
    fn path_for_file(&self, file_id: &FileId) -> &FilePath {
        self.set.path_for_file(file_id)
    }
    fn read_content(&self, file_path: &FilePath) -> Option<String> {
        self.files.get(&file_path.0).cloned()
    }
}

fn ide_sweep(root_text: &str, inc_text: &str) -> Result<u64, String> {
    let mut fs = MemFs::default();
    fs.files.insert(PathBuf::from("/ws/main.td"), root_text.to_string());
    fs.files.insert(PathBuf::from("/ws/inc.td"), inc_text.to_string());
    let mut host = AnalysisHost::new();
    let root = fs.assign_or_get_file_id(FilePath(PathBuf::from("/ws/main.td")));
    host.set_file_content(root, Arc::from(root_text));
    host.set_root_file(&mut fs, root);
    let a = host.analysis();
    let mut n = 0u64;
    let diags = a.diagnostics();
    for (fid, ds) in &diags {
        let len = fs.read_content(fs.path_for_file(fid)).map(|t| t.len()).unwrap_or(0);
        for d in ds {
            if usize::from(d.location.range.end()) > len {
                return Err(format!("diagnostic range {:?} beyond text of length {}", d.location.range, len));
            }
        }
        n += 1;
    }
    for fid in diags.keys() {
        let _ = a.document_symbol(*fid);
        let _ = a.folding_range(*fid);
        let _ = a.document_link(*fid);
        let len = fs.read_content(fs.path_for_file(fid)).map(|t| t.len()).unwrap_or(0) as u32;
        let _ = a.inlay_hint(FileRange::new(*fid, rowan::TextRange::new(0.into(), len.into())));
        let step = (len / 12).max(1);
        let mut off = 0;
        while off <= len {
            let pos = FilePosition::new(*fid, off.into());
            let _ = a.goto_definition(pos);
            let _ = a.references(pos);
            let _ = a.hover(pos);
            let _ = a.completion(pos, None);
            n += 4;
            off += step;
        }
    }
    // an edit through the same host (salsa revision bump) and a second look; the snapshot must be gone first
    drop(diags);
    drop(a);
    let t2 = format!("{}class Added;\n", root_text);
    fs.files.insert(PathBuf::from("/ws/main.td"), t2.clone());
    host.set_file_content(root, Arc::from(t2.as_str()));
    host.set_root_file(&mut fs, root);
    let _ = host.analysis().diagnostics();
    Ok(n)
}

fn main() {
    let args: Vec<String> = std::env::args().collect();
    let mode = args.get(1).map(|s| s.as_str()).unwrap_or("parse");
    let shard: usize = args.get(2).and_then(|s| s.parse().ok()).unwrap_or(0);
    let nshards: usize = args.get(3).and_then(|s| s.parse().ok()).unwrap_or(1);
    let count: usize = args.get(4).and_then(|s| s.parse().ok()).unwrap_or(4);
    let seed: u64 = args.get(5).and_then(|s| s.parse().ok()).unwrap_or(1);
    let mut rng = Rng(seed.wrapping_mul(0x9E3779B97F4A7C15) ^ (shard as u64 + 1).wrapping_mul(0xD1B54A32D192ED03));
    let mut done = 0u64;
    for k in 0..count {
        let idx = k * nshards + shard;
        // alternate: a built-in program (with a random cut), and a random lexeme sequence
        let text = if idx % 2 == 0 {
            let p = PROGRAMS[(idx / 2) % PROGRAMS.len()];
            let mut cut = p.len() - rng.below(p.len() / 3 + 1);
            while !p.is_char_boundary(cut) {
                cut -= 1;
            }
            p[..cut].to_string()
        } else {
            let n = 2 + rng.below(10);
            let mut s = String::new();
            for _ in 0..n {
                s.push_str(LEX[rng.below(LEX.len())]);
                if rng.below(3) != 0 {
                    s.push(' ');
                }
            }
            s
        };
        match mode {
            "ide" => {
                let inc = PROGRAMS[(idx + 3) % PROGRAMS.len()];
                let root = format!("include \"inc.td\"\n{}", text);
                match ide_sweep(&root, inc) {
                    Ok(n) => done += n,
                    Err(e) => {
                        println!("VMIRI-VIOLATION mode=ide input={:?} what={}", root, e);
                        std::process::exit(1);
                    }
                }
            }
            _ => match lossless(&text) {
                Ok(()) => done += 1,
                Err(e) => {
                    println!("VMIRI-VIOLATION mode=parse input={:?} what={}", text, e);
                    std::process::exit(1);
                }
            },
        }
    }
    println!("VMIRI-OK mode={} shard={}/{} inputs={} observations={}", mode, shard, nshards, count, done);
}
