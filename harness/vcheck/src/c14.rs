//! C14 lexical conformance: sequences of spec-valid token instances joined by every separator kind,
//! observed through the public Lexer, compared with what the token grammar of the reference prescribes.
use crate::core::*;
use crate::reflex::{self, Class};
use serde_json::{json, Value};
use syntax::token_kind::TokenKind as TK;
use syntax::token_stream::TokenStream;

pub struct C14;

pub fn keyword_kind(w: &str) -> Option<TK> {
    Some(match w {
        "assert" => TK::Assert,
        "bit" => TK::Bit,
        "bits" => TK::Bits,
        "class" => TK::Class,
        "code" => TK::Code,
        "dag" => TK::Dag,
        "def" => TK::Def,
        "dump" => TK::Dump,
        "else" => TK::ElseKw,
        "false" => TK::FalseVal,
        "foreach" => TK::Foreach,
        "defm" => TK::Defm,
        "defset" => TK::Defset,
        "defvar" => TK::Defvar,
        "field" => TK::Field,
        "if" => TK::If,
        "in" => TK::In,
        "include" => TK::Include,
        "int" => TK::Int,
        "let" => TK::Let,
        "list" => TK::List,
        "multiclass" => TK::MultiClass,
        "string" => TK::String,
        "then" => TK::Then,
        "true" => TK::TrueVal,
        _ => return None,
    })
}
pub fn bang_kind(w: &str) -> Option<TK> {
    Some(match w {
        "add" => TK::XAdd,
        "and" => TK::XAnd,
        "cast" => TK::XCast,
        "con" => TK::XCon,
        "cond" => TK::XCond,
        "dag" => TK::XDag,
        "div" => TK::XDiv,
        "empty" => TK::XEmpty,
        "eq" => TK::XEq,
        "exists" => TK::XExists,
        "filter" => TK::XFilter,
        "find" => TK::XFind,
        "foldl" => TK::XFoldl,
        "foreach" => TK::XForEach,
        "ge" => TK::XGe,
        "getdagarg" => TK::XGetDagArg,
        "getdagname" => TK::XGetDagName,
        "getdagop" => TK::XGetDagOp,
        "gt" => TK::XGt,
        "head" => TK::XHead,
        "if" => TK::XIf,
        "initialized" => TK::XInitialized,
        "interleave" => TK::XInterleave,
        "isa" => TK::XIsA,
        "le" => TK::XLe,
        "listconcat" => TK::XListConcat,
        "listflatten" => TK::XListFlatten,
        "listremove" => TK::XListRemove,
        "listsplat" => TK::XListSplat,
        "logtwo" => TK::XLog2,
        "lt" => TK::XLt,
        "mul" => TK::XMul,
        "ne" => TK::XNe,
        "not" => TK::XNot,
        "or" => TK::XOr,
        "range" => TK::XRange,
        "repr" => TK::XRepr,
        "setdagarg" => TK::XSetDagArg,
        "setdagname" => TK::XSetDagName,
        "setdagop" => TK::XSetDagOp,
        "shl" => TK::XShl,
        "size" => TK::XSize,
        "sra" => TK::XSra,
        "srl" => TK::XSrl,
        "strconcat" => TK::XStrConcat,
        "sub" => TK::XSub,
        "subst" => TK::XSubst,
        "substr" => TK::XSubstr,
        "tail" => TK::XTail,
        "tolower" => TK::XToLower,
        "toupper" => TK::XToUpper,
        "xor" => TK::XXor,
        _ => return None,
    })
}
fn punct_kind(w: &str) -> Option<TK> {
    Some(match w {
        "-" => TK::Minus,
        "+" => TK::Plus,
        "[" => TK::LSquare,
        "]" => TK::RSquare,
        "{" => TK::LBrace,
        "}" => TK::RBrace,
        "(" => TK::LParen,
        ")" => TK::RParen,
        "<" => TK::Less,
        ">" => TK::Greater,
        ":" => TK::Colon,
        ";" => TK::Semi,
        "," => TK::Comma,
        "." => TK::Dot,
        "..." => TK::DotDotDot,
        "=" => TK::Equal,
        "?" => TK::Question,
        "#" => TK::Paste,
        _ => return None,
    })
}
fn directive_kind(w: &str) -> Option<TK> {
    Some(match w {
        "#define" => TK::Define,
        "#ifdef" => TK::Ifdef,
        "#ifndef" => TK::Ifndef,
        "#else" => TK::Else,
        "#endif" => TK::Endif,
        _ => return None,
    })
}
pub fn expected_kind(class: Class, text: &str) -> Option<TK> {
    match class {
        Class::Ident => Some(TK::Id),
        Class::Keyword => keyword_kind(text),
        Class::Int => Some(TK::IntVal),
        Class::BinInt => Some(TK::BinaryIntVal),
        Class::Str => Some(TK::StrVal),
        Class::Code => Some(TK::CodeFragment),
        Class::VarName => Some(TK::VarName),
        Class::BangOp | Class::CondOp => bang_kind(&text[1..]),
        Class::Punct => punct_kind(text),
        Class::Directive => directive_kind(text),
    }
}

#[derive(Clone, Debug)]
pub struct Inst {
    pub text: String,
    pub class: Class,
    pub trait_: &'static str,
}
fn inst(text: impl Into<String>, class: Class, trait_: &'static str) -> Inst {
    Inst { text: text.into(), class, trait_ }
}

const IDC: &[u8] = b"abcdefghijklmnopqrstuvwxyzABCDEFGHIJKLMNOPQRSTUVWXYZ_0123456789";

fn gen_ident(rng: &mut Rng) -> Inst {
    loop {
        let digit_leading = rng.chance(1, 4);
        let mut s = String::new();
        if digit_leading {
            for _ in 0..rng.range(1, 3) {
                s.push((b'0' + rng.below(10) as u8) as char);
            }
            // after the digits: a letter; `x` / `b` only when what follows is not a digit of that radix
            // (`0bar`, `0b2`, `12xyz` are identifiers; `0b1..`, `0x1..`, `12b0` are LLVM's number corner)
            let c = IDC[rng.below(53)];
            s.push(c as char);
            if c == b'x' {
                s.push(*rng.pick(&['g', 'z', '_', 'G', 'q']));
            } else if c == b'b' {
                s.push(*rng.pick(&['2', '9', 'a', 'e', 'F', '_', 'z']));
            }
        } else {
            s.push(IDC[rng.below(53)] as char);
        }
        for _ in 0..rng.below(7) {
            s.push(IDC[rng.below(IDC.len())] as char);
        }
        if reflex::KEYWORDS.contains(&s.as_str()) {
            continue;
        }
        return inst(s, Class::Ident, if digit_leading { "ident:digit-leading" } else { "ident" });
    }
}
fn gen_int(rng: &mut Rng) -> Inst {
    match rng.below(10) {
        0 => inst("9223372036854775807", Class::Int, "int:i64-max"),
        1 => inst("-9223372036854775808", Class::Int, "int:i64-min"),
        2 => inst("18446744073709551615", Class::Int, "int:u64-max"),
        3 | 4 => {
            let mut s = "0x".to_string();
            for _ in 0..rng.range(1, 16) {
                s.push(*rng.pick(&['0', '1', '9', 'a', 'f', 'A', 'F', '7']));
            }
            inst(s, Class::Int, "int:hex")
        }
        5 | 6 => {
            let mut s = "0b".to_string();
            for _ in 0..rng.range(1, 64) {
                s.push(if rng.chance(1, 2) { '0' } else { '1' });
            }
            inst(s, Class::BinInt, "int:binary")
        }
        _ => {
            let mut s = String::new();
            let tr = match rng.below(3) {
                0 => {
                    s.push('+');
                    "int:plus-signed"
                }
                1 => {
                    s.push('-');
                    "int:minus-signed"
                }
                _ => "int:decimal",
            };
            for _ in 0..rng.range(1, 18) {
                s.push((b'0' + rng.below(10) as u8) as char);
            }
            inst(s, Class::Int, tr)
        }
    }
}
fn gen_string(rng: &mut Rng) -> Inst {
    let escapes = ["\\\\", "\\'", "\\\"", "\\t", "\\n"];
    let plain = ["a", "B", " ", "0", "/", "*", "//", "/*", "}]", "[{", "'", "$x", "!add", "#", "\u{e9}", "\t"];
    let mut s = String::from("\"");
    let n = rng.below(6);
    let mut tr = "string:plain";
    for i in 0..n {
        if rng.chance(1, 3) {
            let e = escapes[rng.below(escapes.len())];
            s.push_str(e);
            tr = "string:escapes";
            if i == n - 1 {
                tr = if e == "\\\\" { "string:backslash-escape-before-quote" } else { "string:escape-before-quote" };
            }
        } else {
            s.push_str(plain[rng.below(plain.len())]);
            if i == n - 1 && tr != "string:plain" {
                tr = "string:escapes";
            }
        }
    }
    s.push('"');
    inst(s, Class::Str, tr)
}
fn gen_code(rng: &mut Rng) -> Inst {
    let parts = [" x ", "}", "]", "] }", "{ [", "\n", "\"q", "// c", "/* c", "}}", "]]", "!", "$"];
    let mut s = String::from("[{");
    for _ in 0..rng.below(6) {
        s.push_str(parts[rng.below(parts.len())]);
    }
    // the body must not contain the terminator
    while s[2..].contains("}]") {
        s = s[..2].to_string() + &s[2..].replace("}]", "} ]");
    }
    // LLVM's lexer consumes the character after every '}' while scanning for "}]", so a body ending in '}'
    // hides the terminator from it ("}}]"); the reference text says "shortest", keep out of the ambiguity
    if s.ends_with('}') {
        s.push(' ');
    }
    let tr = if s[2..].contains('}') || s[2..].contains(']') { "code:with-brackets" } else { "code" };
    s.push_str("}]");
    inst(s, Class::Code, tr)
}
fn gen_varname(rng: &mut Rng) -> Inst {
    let mut s = String::from("$");
    s.push(IDC[rng.below(53)] as char);
    for _ in 0..rng.below(6) {
        s.push(IDC[rng.below(IDC.len())] as char);
    }
    inst(s, Class::VarName, "varname")
}
pub fn gen_instance(rng: &mut Rng) -> Inst {
    match rng.below(12) {
        0 | 1 => gen_ident(rng),
        2 | 3 => gen_int(rng),
        4 | 5 => gen_string(rng),
        6 => gen_code(rng),
        7 => gen_varname(rng),
        8 => {
            let k = reflex::KEYWORDS[rng.below(25)];
            inst(k, Class::Keyword, "keyword")
        }
        9 => {
            if rng.chance(1, 20) {
                inst("!cond", Class::CondOp, "bang:cond")
            } else {
                inst(format!("!{}", reflex::BANG_OPS[rng.below(reflex::BANG_OPS.len())]), Class::BangOp, "bang")
            }
        }
        _ => {
            let p = reflex::PUNCT[rng.below(reflex::PUNCT.len())];
            inst(p, Class::Punct, if p == "-" || p == "+" { "punct:sign" } else { "punct" })
        }
    }
}

/// finite representatives: every keyword, every operator, every punctuation, boundary literals
pub fn representatives() -> Vec<Inst> {
    let mut v = Vec::new();
    for k in reflex::KEYWORDS {
        v.push(inst(k, Class::Keyword, "keyword"));
    }
    for o in reflex::BANG_OPS {
        v.push(inst(format!("!{}", o), Class::BangOp, "bang"));
    }
    v.push(inst("!cond", Class::CondOp, "bang:cond"));
    for p in reflex::PUNCT {
        v.push(inst(p, Class::Punct, if p == "-" || p == "+" { "punct:sign" } else { "punct" }));
    }
    for (t, c, tr) in [
        ("a", Class::Ident, "ident"),
        ("_x9", Class::Ident, "ident"),
        ("Foo", Class::Ident, "ident"),
        ("4foo", Class::Ident, "ident:digit-leading"),
        ("12_", Class::Ident, "ident:digit-leading"),
        ("0bar", Class::Ident, "ident:digit-leading"),
        ("0b2", Class::Ident, "ident:digit-leading"),
        ("0beef", Class::Ident, "ident:digit-leading"),
        ("0xg", Class::Ident, "ident:digit-leading"),
        ("7x_", Class::Ident, "ident:digit-leading"),
        // digits in front of a keyword spelling are one identifier, not a keyword
        ("4def", Class::Ident, "ident:digit-leading"),
        ("1if", Class::Ident, "ident:digit-leading"),
        ("2in", Class::Ident, "ident:digit-leading"),
        ("64int", Class::Ident, "ident:digit-leading"),
        ("8bit", Class::Ident, "ident:digit-leading"),
        ("7true", Class::Ident, "ident:digit-leading"),
        ("3class", Class::Ident, "ident:digit-leading"),
        ("9_let", Class::Ident, "ident:digit-leading"),
        // ... and so are keyword spellings with a tail
        ("define", Class::Ident, "ident"),
        ("classy", Class::Ident, "ident"),
        ("int_", Class::Ident, "ident"),
        ("if0", Class::Ident, "ident"),
        ("classy", Class::Ident, "ident:keyword-prefix"),
        ("int1", Class::Ident, "ident:keyword-prefix"),
        ("0", Class::Int, "int:decimal"),
        ("42", Class::Int, "int:decimal"),
        ("-1", Class::Int, "int:minus-signed"),
        ("+7", Class::Int, "int:plus-signed"),
        ("0x1F", Class::Int, "int:hex"),
        ("0xdeadBEEF", Class::Int, "int:hex"),
        ("0b101", Class::BinInt, "int:binary"),
        ("9223372036854775807", Class::Int, "int:i64-max"),
        ("-9223372036854775808", Class::Int, "int:i64-min"),
        ("18446744073709551615", Class::Int, "int:u64-max"),
        ("\"\"", Class::Str, "string:plain"),
        ("\"s\"", Class::Str, "string:plain"),
        ("\"a\\\\\"", Class::Str, "string:backslash-escape-before-quote"),
        ("\"\\\\\\\\\"", Class::Str, "string:backslash-escape-before-quote"),
        ("\"a\\\"\"", Class::Str, "string:escape-before-quote"),
        ("\"\\n\\t\\'\"", Class::Str, "string:escape-before-quote"),
        ("\"a\\\"b\"", Class::Str, "string:escapes"),
        ("\"// not a comment\"", Class::Str, "string:plain"),
        ("[{ c }]", Class::Code, "code"),
        ("[{}]", Class::Code, "code"),
        ("[{ } ] }]", Class::Code, "code:with-brackets"),
        ("[{ a[0] = {1}; }]", Class::Code, "code:with-brackets"),
        ("$v", Class::VarName, "varname"),
        ("$_a1", Class::VarName, "varname"),
    ] {
        v.push(inst(t, c, tr));
    }
    v
}

pub const SEPARATORS: [(&str, &str); 15] = [
    (" // c\r", "line-comment-ended-by-cr"),
    (" // c\r\n", "line-comment-ended-by-crlf"),
    ("/* o /* i */* still outer */", "nested-block-comment-star-after-close"),
    ("/***/ /**/ /*/ */ /* **/", "block-comment-star-runs"),
    ("/* a //*/ ", "block-comment-with-line-comment-opener"),
    (" ", "space"),
    ("\t", "tab"),
    ("\n", "lf"),
    ("\r\n", "crlf"),
    ("  \n\t ", "mixed-ws"),
    (" // c\n", "line-comment"),
    ("// \"q [{ /*\n", "line-comment-with-openers"),
    (" /* c */ ", "block-comment"),
    ("/* /* n */ */", "nested-block-comment"),
    ("/* a /* b /* c */ */ \" */", "nested-block-comment"),
];

fn observe(text: &str) -> Result<(Vec<(TK, usize, usize)>, Vec<String>), PanicInfo> {
    guard(|| {
        let mut lx = syntax::lexer::Lexer::new(text);
        let mut toks = Vec::new();
        let mut errs = Vec::new();
        loop {
            let s = lx.cursor();
            let k = lx.eat();
            let e = lx.cursor();
            if k == TK::Eof {
                break;
            }
            if k == TK::Error {
                errs.push(lx.take_error().map(|m| m.to_string()).unwrap_or_default());
            }
            if !matches!(k, TK::Whitespace | TK::LineComment | TK::BlockComment) {
                toks.push((k, s, e));
            }
            if e <= s {
                break; // a lexer that does not advance is C02's business
            }
        }
        (toks, errs)
    })
}

/// Compare the observation with the expectation; blame the first differing token.
fn compare(text: &str, expect: &[(TK, usize, usize, &'static str, &'static str)], trailing: &str, ctx: &mut Ctx, case: impl Fn() -> Value) {
    ctx.eval();
    ctx.current_text(text);
    let (toks, errs) = match observe(text) {
        Ok(x) => x,
        Err(pi) => {
            ctx.panic_violation("lex:", &pi, case());
            return;
        }
    };
    let same = toks.len() == expect.len() && toks.iter().zip(expect).all(|(a, b)| a.0 == b.0 && a.1 == b.1 && a.2 == b.2);
    if same && errs.is_empty() {
        return;
    }
    // first difference
    let mut k = 0;
    while k < toks.len() && k < expect.len() && toks[k].0 == expect[k].0 && toks[k].1 == expect[k].1 && toks[k].2 == expect[k].2 {
        k += 1;
    }
    if k >= expect.len() {
        ctx.violation(
            if trailing != "eof" { format!("separator:{}", trailing) } else { format!("extra-tokens-after:{}", expect.last().map(|e| e.3).unwrap_or("nothing")) },
            format!("lexer produced {} tokens, expected {}; errors {:?}", toks.len(), expect.len(), errs),
            case(),
        );
        return;
    }
    let e = &expect[k];
    let got = toks.get(k).map(|t| format!("{:?}@{}..{}", t.0, t.1 - e.1.min(t.1), t.2.saturating_sub(e.1))).unwrap_or("nothing".into());
    // a token starting where expected means the token itself is mis-lexed; otherwise the separator before it was
    let starts_ok = toks.get(k).map(|t| t.1 == e.1).unwrap_or(false);
    let sig = if starts_ok || k == 0 && toks.is_empty() {
        let at_eof = e.2 == text.len();
        format!("token:{}{}:got-{}", e.3, if at_eof && e.3 == "punct:sign" { ":at-eof" } else { "" }, got.split('@').next().unwrap_or(""))
    } else {
        format!("separator:{}", e.4)
    };
    ctx.violation(
        sig,
        format!("expected {:?} {:?} at {}..{} (after separator '{}'), lexer gave {}; errors {:?}", e.0, &text[e.1..e.2], e.1, e.2, e.4, got, errs),
        case(),
    );
}

fn check_sequence(items: &[(Inst, usize)], trailing_sep: Option<usize>, ctx: &mut Ctx) {
    // items: (instance, index of the separator placed BEFORE it; ignored for the first)
    let mut text = String::new();
    let mut expect = Vec::new();
    for (i, (it, sep)) in items.iter().enumerate() {
        let sep_name = if i == 0 {
            "start"
        } else {
            text.push_str(SEPARATORS[*sep].0);
            SEPARATORS[*sep].1
        };
        let s = text.len();
        text.push_str(&it.text);
        let Some(k) = expected_kind(it.class, &it.text) else {
            ctx.note(format!("no expected kind for {:?}", it.text));
            return;
        };
        expect.push((k, s, text.len(), it.trait_, sep_name));
        ctx.feature(&format!("trait:{}", it.trait_));
        if i > 0 {
            ctx.feature(&format!("sep:{}", sep_name));
        }
    }
    if let Some(s) = trailing_sep {
        text.push_str(SEPARATORS[s].0);
    } else {
        ctx.feature("ends_at_eof");
    }
    // the reference lexer must agree with the construction, otherwise the case is a harness fault
    match reflex::lex(&text) {
        Ok(r) => {
            let ok = r.len() == expect.len() && r.iter().zip(&expect).all(|(a, b)| a.start == b.1 && a.end == b.2 && expected_kind(a.class, &text[a.start..a.end]) == Some(b.0));
            if !ok {
                ctx.feature("reference_disagrees_with_construction");
                ctx.note(format!("reflex disagrees with construction on {:?}", text));
                return;
            }
        }
        Err(e) => {
            ctx.feature("reference_disagrees_with_construction");
            ctx.note(format!("reflex rejects constructed text {:?}: {}", text, e));
            return;
        }
    }
    let nontrivial = items.iter().any(|(it, _)| it.trait_.contains(':')) || items.iter().skip(1).any(|(_, s)| SEPARATORS[*s].1.contains("comment"));
    if nontrivial {
        ctx.nontrivial(fnv64(text.as_bytes()));
    }
    if ctx.want_sample() && items.len() >= 4 {
        ctx.sample(json!({"text": text, "expected": expect.iter().map(|e| format!("{:?}", e.0)).collect::<Vec<_>>()}));
    }
    let t2 = text.clone();
    let trailing = trailing_sep.map(|s| SEPARATORS[s].1).unwrap_or("eof");
    compare(&text, &expect, trailing, ctx, move || json!({"kind": "text", "text": t2}));
}

fn corpus_file(k: usize, ctx: &mut Ctx) {
    let f = &crate::texts::corpus()[k];
    match reflex::lex(&f.text) {
        Err(e) => ctx.note(format!("reflex rejects corpus file {}: {}", f.name, e)),
        Ok(r) => {
            let mut expect = Vec::new();
            for t in &r {
                let Some(k) = expected_kind(t.class, &f.text[t.start..t.end]) else { return };
                expect.push((k, t.start, t.end, "corpus-token", "corpus"));
            }
            ctx.feature("corpus_files");
            ctx.feature_n("corpus_tokens", expect.len() as u64);
            ctx.nontrivial(fnv64(f.text.as_bytes()));
            let name = f.name.clone();
            compare(&f.text, &expect, "eof", ctx, move || json!({"kind": "corpus", "file": name}));
        }
    }
}

/// llvm-tblgen audit of a batch of literal/identifier instances in contexts where they are also syntactically valid
fn audit(instances: &[Inst], ctx: &mut Ctx) {
    if !std::path::Path::new("/usr/bin/llvm-tblgen").exists() {
        ctx.note("llvm-tblgen not installed: audit skipped");
        return;
    }
    let dir = work_dir("C14");
    let mut live: Vec<&Inst> = instances.iter().collect();
    let mut rounds = 0;
    while !live.is_empty() && rounds < 20 {
        rounds += 1;
        let mut src = String::from("def ins;\n");
        let mut line_of = Vec::new();
        for (i, it) in live.iter().enumerate() {
            let sep = SEPARATORS[i % SEPARATORS.len()].0;
            let line = match it.class {
                Class::Ident => format!("def{}{} ;", sep, it.text),
                Class::Int | Class::BinInt | Class::Str | Class::Code => format!("defvar v{} ={}{} ;", i, sep, it.text),
                Class::VarName => format!("defvar v{} = (ins{}{});", i, sep, it.text),
                _ => continue,
            };
            // one statement per line (separators may contain newlines: count them)
            line_of.push((src.matches('\n').count() + 1, src.matches('\n').count() + 1 + line.matches('\n').count(), i));
            src.push_str(&line);
            src.push('\n');
        }
        let path = dir.join(format!("audit.{}.td", std::process::id()));
        if std::fs::write(&path, &src).is_err() {
            return;
        }
        let out = std::process::Command::new("/usr/bin/llvm-tblgen").arg(&path).arg("-o").arg("/dev/null").output();
        let Ok(out) = out else { return };
        ctx.feature_n("audit_checked", line_of.len() as u64);
        if out.status.success() {
            break;
        }
        let stderr = String::from_utf8_lossy(&out.stderr);
        if std::env::var_os("VCHECK_KEEP_AUDIT").is_some() {
            let _ = std::fs::write(dir.join("audit.fail.td"), &src);
        }
        // "<file>:<line>:<col>: error: ..."
        let bad_line = stderr.lines().find_map(|l| {
            let l = l.strip_prefix(path.to_string_lossy().as_ref())?;
            let mut it = l.trim_start_matches(':').split(':');
            it.next()?.parse::<usize>().ok()
        });
        let Some(bl) = bad_line else {
            ctx.note(format!("tblgen failed without a line: {}", stderr.lines().next().unwrap_or("")));
            break;
        };
        let culprit = line_of.iter().find(|(a, b, _)| *a <= bl && bl <= *b).map(|x| x.2);
        match culprit {
            Some(i) => {
                ctx.feature("audit_discarded");
                ctx.note(format!("tblgen 14 rejects {:?} ({}) after separator #{}: {}", live[i].text, live[i].trait_, i % SEPARATORS.len(), stderr.lines().next().unwrap_or("")));
                live.remove(i);
            }
            None => break,
        }
    }
}

impl Check for C14 {
    fn id(&self) -> &'static str {
        "C14"
    }
    fn units(&self, tier: Tier, _seed: u64) -> u64 {
        let reps = representatives().len() as u64;
        reps + 39 + tier.pick(32, 512) + 1
    }
    fn run_unit(&self, unit: u64, ctx: &mut Ctx) {
        let reps = representatives();
        let nr = reps.len() as u64;
        if unit < nr {
            // exhaustive pairs: rep[unit] x separator x rep[*], with and without trailing separator;
            // and the single token alone at EOF
            let a = &reps[unit as usize];
            check_sequence(&[(a.clone(), 0)], None, ctx);
            check_sequence(&[(a.clone(), 0)], Some(2), ctx);
            for b in &reps {
                for s in 0..SEPARATORS.len() {
                    check_sequence(&[(a.clone(), 0), (b.clone(), s)], None, ctx);
                }
                check_sequence(&[(a.clone(), 0), (b.clone(), 0)], Some(5), ctx);
            }
            ctx.feature("pair_units");
        } else if unit < nr + 39 {
            corpus_file((unit - nr) as usize, ctx);
        } else if unit < self.units(ctx.tier, 0) - 1 {
            let mut rng = Rng::derive(ctx.seed, 0x14, unit);
            for _ in 0..ctx.tier.pick(300, 2000) {
                let n = rng.range(1, 30);
                let items: Vec<(Inst, usize)> = (0..n).map(|_| (gen_instance(&mut rng), rng.below(SEPARATORS.len()))).collect();
                let trailing = if rng.chance(1, 2) { Some(rng.below(SEPARATORS.len())) } else { None };
                check_sequence(&items, trailing, ctx);
                ctx.feature_n("random_tokens", n as u64);
            }
        } else {
            // audit unit: a sample of literal / identifier instances goes through llvm-tblgen 14
            let mut rng = Rng::derive(ctx.seed, 0x14A, unit);
            let mut batch: Vec<Inst> = representatives().into_iter().filter(|i| matches!(i.class, Class::Ident | Class::Int | Class::BinInt | Class::Str | Class::Code | Class::VarName)).collect();
            for _ in 0..ctx.tier.pick(150, 1500) {
                let it = gen_instance(&mut rng);
                if matches!(it.class, Class::Ident | Class::Int | Class::BinInt | Class::Str | Class::Code | Class::VarName) {
                    batch.push(it);
                }
            }
            for chunk in batch.chunks(60) {
                audit(chunk, ctx);
            }
            ctx.evals(1);
        }
    }
    fn replay(&self, case: &Value, ctx: &mut Ctx) {
        if let Some(t) = case["text"].as_str() {
            // expectation comes from the reference lexer
            match reflex::lex(t) {
                Ok(r) => {
                    let expect: Vec<_> = r.iter().filter_map(|x| expected_kind(x.class, &t[x.start..x.end]).map(|k| (k, x.start, x.end, "replayed", "replayed"))).collect();
                    let t2 = t.to_string();
                    compare(t, &expect, "eof", ctx, move || json!({"kind": "text", "text": t2}));
                    // re-derive the precise signature too: replays of constructed cases keep their own text, so
                    // a reported signature may differ in its trait label; the verdict line is what counts
                }
                Err(e) => ctx.note(format!("reference lexer rejects the replayed text: {}", e)),
            }
        } else if let Some(name) = case["file"].as_str() {
            if let Some(k) = crate::texts::corpus().iter().position(|f| f.name == name) {
                corpus_file(k, ctx);
            }
        }
    }
    fn rule(&self) -> String {
        format!("token instances: every keyword (25), every bang operator of the reference (51 + !cond), every punctuation (18) and boundary literals as fixed representatives ({}), plus instances sampled from each class's regular language (identifiers incl. digit-leading, signed/unsigned decimals up to the 64-bit limits, hex, binary, strings with every escape in every position incl. directly before the closing quote, code fragments containing ']' and '}}', variable names). EXHAUSTIVE: representative x separator x representative for the {} separators (space, tab, LF, CRLF, mixed, line comment, line comment containing openers, block comment, two nested block comments), each also alone at EOF and with a trailing separator. SAMPLED: random sequences of 1-30 instances with random separators, half of them ending at EOF without separator; the 39 corpus files (expected tokens from the reference lexer reflex.rs). Oracle: the public Lexer's non-trivia tokens (kind, start, end) equal the construction (cross-checked with reflex.rs; disagreement = harness fault, counted, not reported) and no Error token / message appears. A sample of literal/identifier instances is audited by llvm-tblgen 14 in a valid context; rejected instances would be discarded and counted. non-trivial = sequence has a boundary-case instance or a comment separator; distinct by text digest", representatives().len(), SEPARATORS.len())
    }
    fn floors(&self, tier: Tier) -> Vec<(&'static str, u64)> {
        vec![
            ("pair_units", representatives().len() as u64),
            ("corpus_files", 39),
            ("random_tokens", tier.pick(100_000, 10_000_000)),
            ("sep:nested-block-comment", 10_000),
            ("trait:string:backslash-escape-before-quote", 1000),
            ("trait:ident:digit-leading", 1000),
            ("trait:int:u64-max", 500),
            ("ends_at_eof", 1000),
        ]
    }
    fn exhaustive(&self, _tier: Tier) -> Option<String> {
        let n = representatives().len();
        Some(format!("sub-space: all {} x {} x {} (representative, separator, representative) triples", n, SEPARATORS.len(), n))
    }
    fn assumptions(&self) -> Vec<String> {
        vec![
            "token grammar as in the LLVM TableGen Programmer's Reference; corners as in LLVM's TGLexer (block comments nest; identifiers may start with digits; a sign directly followed by a digit starts an integer)".into(),
            "the operator is spelt !logtwo upstream; the remark about !log2 in the property's motivation is not part of the statement".into(),
            "digit-leading identifiers whose first letter is x or b are not generated (0x/0b prefix corner)".into(),
        ]
    }
    fn technique(&self) -> &'static str {
        "differential monitor of the public Lexer against expectations known by construction and an independent reference lexer; exhaustive representative pairs + random sequences + corpus; llvm-tblgen audit of the generator"
    }
}
