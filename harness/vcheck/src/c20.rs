//! C20 completion vocabulary: closure of what `Analysis::completion` offers under the server's own lexer and
//! parser, and class-name completion against the classes of the workspace.
use crate::c14::{bang_kind, keyword_kind};
use crate::core::*;
use crate::reflex;
use crate::ws::{self, Workspace};
use ide::file_system::FilePosition;
use ide::handlers::completion::{CompletionItem, CompletionItemKind};
use serde_json::{json, Value};
use std::collections::{BTreeMap, BTreeSet};
use syntax::token_kind::TokenKind as TK;
use syntax::token_stream::TokenStream;

pub struct C20;

fn complete(text: &str, offset: usize, trigger: Option<&str>) -> Result<Vec<CompletionItem>, PanicInfo> {
    let w = Workspace::single(text);
    guard(|| {
        let l = ws::load(&w);
        let a = l.analysis();
        a.completion(FilePosition::new(l.root, (offset as u32).into()), trigger.map(|s| s.to_string())).unwrap_or_default()
    })
}

/// lex `s` with the server's own lexer; Some(kind) iff it is exactly one token spanning all of `s`
fn lex_one(s: &str) -> Option<TK> {
    let mut lx = syntax::lexer::Lexer::new(s);
    let k = lx.eat();
    if lx.cursor() != s.len() || k == TK::Eof {
        return None;
    }
    if lx.eat() != TK::Eof {
        return None;
    }
    Some(k)
}

fn minimal_statement(keyword: &str) -> Option<&'static str> {
    Some(match keyword {
        "assert" => "assert 1, \"m\";",
        "class" => "class A;",
        "def" => "def a;",
        "dump" => "dump 1;",
        "foreach" => "foreach i = [1] in def a;",
        "defm" => "defm a : M;",
        "defset" => "defset list<A> l = { }",
        "defvar" => "defvar a = 1;",
        "if" => "if 1 then def a;",
        "include" => "include \"f.td\"",
        "let" => "let a = 1 in def b;",
        "multiclass" => "multiclass M { def a; }",
        _ => return None,
    })
}

fn vocab_case(fixture: &str, offset: usize, trigger: Option<&str>) -> Value {
    json!({"kind": "completion_fixture", "text": fixture, "offset": offset, "trigger": trigger})
}

fn check_vocabulary(ctx: &mut Ctx) {
    // fixtures: (name, text, offset, trigger)
    let fixtures: Vec<(&str, String, usize, Option<&str>)> = vec![
        ("toplevel", "c".into(), 1, None),
        ("toplevel-after-statement", "class A;\nd".into(), 10, None),
        ("type-template-arg", "class Foo<i".into(), 11, None),
        ("type-field", "class Foo { i".into(), 13, None),
        ("value", "class Foo<int a = t".into(), 19, None),
        ("value-field-init", "class Foo { int x = f".into(), 21, None),
    ];
    for (name, text, off, trig) in &fixtures {
        ctx.eval();
        let items = match complete(text, *off, *trig) {
            Ok(i) => i,
            Err(pi) => {
                ctx.panic_violation("completion:", &pi, vocab_case(text, *off, *trig));
                continue;
            }
        };
        ctx.feature(&format!("fixture:{}", name));
        ctx.feature_n("vocabulary_items", items.len() as u64);
        for it in &items {
            if it.kind == CompletionItemKind::Class {
                continue;
            }
            ctx.eval();
            ctx.nontrivial(fnv64(format!("{}/{}", name, it.label).as_bytes()));
            let want = keyword_kind(&it.label);
            match lex_one(&it.label) {
                Some(k) if Some(k) == want => {}
                got => ctx.violation(
                    format!("offered-not-lexed-as-keyword:{}", it.label),
                    format!("'{}' offered at {} lexes as {:?}, expected the keyword/type token {:?}", it.label, name, got, want),
                    vocab_case(text, *off, *trig),
                ),
            }
            if name.starts_with("toplevel") {
                match minimal_statement(&it.label) {
                    None => ctx.violation(
                        format!("toplevel-keyword-starts-no-statement:{}", it.label),
                        format!("'{}' is offered at file level but the documented grammar has no statement starting with it", it.label),
                        vocab_case(text, *off, *trig),
                    ),
                    Some(st) => {
                        let p = syntax::parse(st);
                        if !p.errors().is_empty() {
                            ctx.violation(
                                format!("toplevel-keyword-statement-rejected:{}", it.label),
                                format!("minimal statement {:?} is rejected: {:?}", st, p.errors()),
                                vocab_case(text, *off, *trig),
                            );
                        }
                        ctx.feature("toplevel_statements_parsed");
                    }
                }
            }
            if name.starts_with("type") {
                // an offered type must be usable as a type: `class T<TYPE x>;` (bits/list need their argument)
                let ty = match it.label.as_str() {
                    "bits" => "bits<4>".to_string(),
                    "list" => "list<int>".to_string(),
                    l => l.to_string(),
                };
                let st = format!("class T {{ {} x; }}", ty);
                if !syntax::parse(&st).errors().is_empty() {
                    ctx.violation(format!("type-not-accepted:{}", it.label), format!("{:?} does not parse", st), vocab_case(text, *off, *trig));
                }
            }
        }
    }
    // bang operators: offered with the trigger minus offered without it, at the same position
    for (name, text, off) in [("bang-toplevel", "!", 1usize), ("bang-in-value", "defvar x = !", 12usize), ("bang-in-arg", "def d : C<!", 11usize)] {
        ctx.eval();
        let with = complete(text, off, Some("!"));
        let without = complete(text, off, None);
        let (Ok(with), Ok(without)) = (with, without) else {
            ctx.violation("completion:panic-bang", "completion panicked on a '!' fixture".to_string(), vocab_case(text, off, Some("!")));
            continue;
        };
        ctx.feature(&format!("fixture:{}", name));
        let base: BTreeSet<String> = without.iter().map(|i| i.label.clone()).collect();
        let mut ops: BTreeSet<String> = BTreeSet::new();
        let mut seen_base: BTreeMap<String, usize> = BTreeMap::new();
        for it in &with {
            // multiset difference: an operator that shares its spelling with a keyword ("if", "foreach", "dag") stays
            if base.contains(&it.label) && *seen_base.get(&it.label).unwrap_or(&0) < without.iter().filter(|b| b.label == it.label).count() {
                *seen_base.entry(it.label.clone()).or_insert(0) += 1;
                continue;
            }
            ops.insert(it.label.clone());
        }
        ctx.feature_n("operator_items", ops.len() as u64);
        for op in &ops {
            ctx.eval();
            ctx.nontrivial(fnv64(format!("{}/!{}", name, op).as_bytes()));
            let want = bang_kind(op);
            match lex_one(&format!("!{}", op)) {
                Some(k) if (k.is_bang_operator() || k.is_cond_operator()) && (want.is_none() || Some(k) == want) => {}
                got => ctx.violation(
                    format!("offered-not-lexed-as-operator:{}", op),
                    format!("'!{}' is offered after '!' but lexes as {:?} (expected operator token {:?})", op, got, want),
                    vocab_case(text, off, Some("!")),
                ),
            }
        }
        // every operator the lexer accepts must be offered: candidates = reference list, every spelling derived
        // from it, and everything offered
        let mut candidates: BTreeSet<String> = reflex::BANG_OPS.iter().map(|s| s.to_string()).collect();
        candidates.insert("cond".into());
        for extra in ["log2", "concat", "listsplat", "strconcat", "getop", "setop", "isa", "exists", "match", "instances", "sort", "bitreverse"] {
            candidates.insert(extra.into());
        }
        candidates.extend(ops.iter().cloned());
        for c in &candidates {
            ctx.eval();
            if let Some(k) = lex_one(&format!("!{}", c)) {
                if k.is_bang_operator() || k.is_cond_operator() {
                    ctx.feature("lexer_accepted_operators");
                    if !ops.contains(c) {
                        ctx.violation(
                            format!("accepted-not-offered:{}", c),
                            format!("the lexer accepts '!{}' as {:?} but it is not offered after '!'", c, k),
                            vocab_case(text, off, Some("!")),
                        );
                    }
                }
            }
        }
    }
}

/// Random small workspaces of classes with known arities, in the root and in an included file.
fn class_completion_case(rng: &mut Rng, ctx: &mut Ctx) {
    let n_inc = rng.below(4);
    let n_root = rng.range(1, 5);
    let tys = ["int", "bit", "string", "list<int>", "bits<4>", "dag"];
    let mut classes: Vec<(String, usize)> = Vec::new();
    let mut inc = String::new();
    let mut k = 0;
    let mut decl = |out: &mut String, rng: &mut Rng, classes: &mut Vec<(String, usize)>| {
        k += 1;
        let mut name = format!("K{}{}", k, ["", "_x", "Cls"][rng.below(3)]);
        // now and then a class whose name differs from an earlier one only in the case of its letters
        if rng.chance(1, 6) {
            if let Some((prev, _)) = classes.iter().find(|(n, _)| n.to_uppercase() != *n && !classes.iter().any(|(m, _)| *m == n.to_uppercase())) {
                name = prev.to_uppercase();
            }
        }
        let ar = rng.below(4);
        // the forward-declaration idiom: `class K;` first, the real definition afterwards (still ONE class)
        if rng.chance(1, 4) {
            out.push_str(&format!("class {};\n", name));
        }
        let mut s = format!("class {}", name);
        if ar > 0 {
            s.push('<');
            // parameters from `first_default` on carry a default: a literal, `?`, or an operator expression
            // (with and without an inferable type) that may read an earlier parameter
            let first_default = if rng.chance(1, 2) { rng.below(ar + 1) } else { ar };
            for i in 0..ar {
                if i > 0 {
                    s.push_str(", ");
                }
                let with_default = i >= first_default;
                let ty = if with_default && rng.chance(2, 3) { "int" } else { tys[rng.below(tys.len())] };
                s.push_str(&format!("{} p{}", ty, i));
                if with_default {
                    let d = if ty == "int" {
                        match rng.below(5) {
                            0 => "7".to_string(),
                            1 => "!cond(true: 1)".to_string(),
                            2 => "!add(1, 2)".to_string(),
                            3 => "!if(true, 1, 2)".to_string(),
                            _ => "?".to_string(),
                        }
                    } else {
                        "?".to_string()
                    };
                    s.push_str(&format!(" = {}", d));
                }
            }
            s.push('>');
        }
        // bodies: none, a plain field, or operators that open a scope of their own around a part without an
        // inferable type (!cond), so that scope bookkeeping is exercised before later declarations
        s.push_str(match rng.below(6) {
            0 | 1 => ";\n",
            2 | 3 => " { int f = 1; }\n",
            4 => " { list<int> l = !filter(x, [1, 2, 3], !cond(true: true)); int g = !foldl(0, [1, 2], a, b, !cond(true: a)); }\n",
            _ => " { list<int> m = !foreach(x, [1, 2], !cond(true: x)); list<int> n = !filter(y, m, !cond(!lt(y, 2): true, true: false)); }\n",
        });
        out.push_str(&s);
        classes.push((name, ar));
    };
    for _ in 0..n_inc {
        decl(&mut inc, rng, &mut classes);
    }
    let mut root = String::new();
    if n_inc > 0 {
        root.push_str("include \"inc.td\"\n");
    }
    for _ in 0..n_root {
        decl(&mut root, rng, &mut classes);
    }
    // also a def and a multiclass, which must NOT be offered as classes
    // (the multiclass has template parameters of its own in half of the cases, and is used by the defm positions)
    let mc_params = rng.chance(1, 2);
    root.push_str(if mc_params { "def NotAClass;\nmulticlass NotAClassEither<int lo = 0, int hi = 1> { def _a; }\n" } else { "def NotAClass;\nmulticlass NotAClassEither { def _a; }\n" });
    if mc_params {
        ctx.feature("multiclass_with_parameters_after_classes");
    }
    // the parent-class position
    let target = classes[rng.below(classes.len())].0.clone();
    let prefix_len = rng.range(1, target.len());
    let variant = rng.below(7);
    // defs and classes live in separate namespaces: a def may carry the name of a class (its own parent, even)
    let def_name = if matches!(variant, 2 | 5) && rng.chance(1, 2) {
        ctx.feature("parent_position:def-named-like-a-class");
        if rng.chance(1, 2) { target.clone() } else { classes[rng.below(classes.len())].0.clone() }
    } else {
        "q".to_string()
    };
    let head = match variant {
        0 => "class Q : ".to_string(),
        1 => format!("class Q : {}, ", classes[0].0),
        2 => format!("def {} : ", def_name),
        // a defm may name ordinary classes after its multiclass(es)
        3 => "defm dm : NotAClassEither, ".to_string(),
        4 => "foreach i = [1, 2] in defm dm#i : NotAClassEither, ".to_string(),
        5 => format!("let f = 1 in def {} : ", def_name),
        _ => "multiclass Outer { defm inner : NotAClassEither, ".to_string(),
    };
    ctx.feature(&format!("parent_position:{}", ["class", "class-second", "def", "defm-after-multiclass", "defm-in-foreach", "def-in-let", "defm-in-multiclass"][variant]));
    root.push_str(&head);
    let offset = root.len() + prefix_len;
    root.push_str(&target[..prefix_len]);
    let closed = rng.chance(1, 2) || variant == 6;
    root.push_str(if closed { ";\n" } else { "\n" });
    if variant == 6 {
        root.push_str("}\n");
    }
    // later declarations belong to the workspace too
    if rng.chance(1, 2) {
        decl(&mut root, rng, &mut classes);
    }
    if variant < 2 {
        classes.push(("Q".to_string(), 0));
    }
    let mut files = vec![("/ws/main.td".to_string(), root)];
    if n_inc > 0 {
        files.push(("/ws/inc.td".to_string(), inc));
    }
    let w = Workspace { files, root: 0 };
    let mut case = w.to_json();
    case["offset"] = json!(offset);
    ctx.eval();
    ctx.current_json(&case);
    // every fourth case asks the real server (in process, over JSON-RPC) instead of the ide crate: what the editor
    // receives is what counts
    let on_the_wire = rng.chance(1, 4);
    let r: Result<Option<Vec<CompletionItem>>, PanicInfo> = if on_the_wire {
        crate::lspdrv::install_counting_hook();
        let mut s = crate::lspdrv::Session::start("C20");
        for (path, text) in &w.files {
            s.write_disk(path, text);
        }
        s.did_open(&w.files[0].0, &w.files[0].1);
        let rp = crate::refpos::RefPos::new(&w.files[0].1);
        let (line, col) = rp.to_line_col(offset);
        let res = s.call("textDocument/completion", json!({"textDocument": {"uri": s.uri(&w.files[0].0)}, "position": {"line": line, "character": col}}), crate::lspdrv::WATCHDOG);
        let out = match res {
            None => {
                ctx.feature("watchdog");
                ctx.note("completion request on the wire got no answer (no verdict)");
                s.abandon();
                return;
            }
            Some((res, _)) => {
                let arr = res.and_then(|v| v.as_array().cloned().or_else(|| v["items"].as_array().cloned())).unwrap_or_default();
                arr.iter()
                    .filter(|i| i["kind"].as_u64() == Some(7))
                    .map(|i| CompletionItem { label: i["label"].as_str().unwrap_or("").into(), detail: String::new(), insert_text_snippet: i["insertText"].as_str().map(|s| s.to_string()), kind: CompletionItemKind::Class })
                    .collect::<Vec<_>>()
            }
        };
        s.shutdown();
        ctx.feature("class_completion_on_the_wire");
        Ok(Some(out))
    } else {
        guard(|| {
            let l = ws::load(&w);
            let a = l.analysis();
            a.completion(FilePosition::new(l.root, (offset as u32).into()), None)
        })
    };
    match r {
        Err(pi) => ctx.panic_violation("class-completion:", &pi, case),
        Ok(items) => {
            let items = items.unwrap_or_default();
            ctx.feature("class_completion_cases");
            if n_inc > 0 {
                ctx.feature("class_completion_with_include");
            }
            ctx.nontrivial(w.digest() ^ offset as u64);
            let got: BTreeMap<String, Option<String>> = items.iter().filter(|i| i.kind == CompletionItemKind::Class).map(|i| (i.label.clone(), i.insert_text_snippet.clone())).collect();
            let n_class_items = items.iter().filter(|i| i.kind == CompletionItemKind::Class).count();
            let want: BTreeMap<String, usize> = classes.iter().cloned().collect();
            let got_names: BTreeSet<&String> = got.keys().collect();
            let want_names: BTreeSet<&String> = want.keys().collect();
            if got_names != want_names || n_class_items != want.len() {
                let missing: Vec<_> = want_names.difference(&got_names).collect();
                let extra: Vec<_> = got_names.difference(&want_names).collect();
                ctx.violation(
                    format!("class-set:{}", if !missing.is_empty() { "missing" } else if !extra.is_empty() { "extra" } else { "duplicates" }),
                    format!("offered classes {:?}, workspace classes {:?}", got_names, want_names),
                    case.clone(),
                );
            }
            for (name, snip) in &got {
                if let (Some(ar), Some(sn)) = (want.get(name), snip) {
                    let placeholders = (1..=8).filter(|i| sn.contains(&format!("${{{}}}", i)) || sn.contains(&format!("${}", i))).count();
                    if placeholders != *ar || !sn.starts_with(name.as_str()) {
                        ctx.violation(
                            "class-snippet-arity",
                            format!("class {} has {} template parameter(s), snippet {:?} has {} placeholder(s)", name, ar, sn, placeholders),
                            case.clone(),
                        );
                    }
                    ctx.feature(&format!("arity:{}", ar));
                } else if snip.is_none() {
                    ctx.violation("class-snippet-missing", format!("class {} offered without a snippet", name), case.clone());
                }
            }
            if ctx.want_sample() {
                ctx.sample(json!({"workspace": w.to_json(), "offset": offset, "offered": got_names}));
            }
        }
    }
}

impl Check for C20 {
    fn id(&self) -> &'static str {
        "C20"
    }
    fn units(&self, tier: Tier, _seed: u64) -> u64 {
        1 + tier.pick(64, 320)
    }
    fn run_unit(&self, unit: u64, ctx: &mut Ctx) {
        if unit == 0 {
            check_vocabulary(ctx);
            ctx.feature("vocabulary_unit");
        } else {
            let mut rng = Rng::derive(ctx.seed, 0x20, unit);
            for _ in 0..ctx.tier.pick(60, 250) {
                class_completion_case(&mut rng, ctx);
            }
        }
    }
    fn replay(&self, case: &Value, ctx: &mut Ctx) {
        if case["kind"] == "completion_fixture" {
            check_vocabulary(ctx);
        } else if let Some(w) = Workspace::from_json(case) {
            // replays of class-completion cases re-run the set comparison against the classes declared in the texts
            let offset = case["offset"].as_u64().unwrap_or(0) as usize;
            let l = ws::load(&w);
            let a = l.analysis();
            ctx.eval();
            let items = a.completion(FilePosition::new(l.root, (offset as u32).into()), None).unwrap_or_default();
            let mut want = BTreeSet::new();
            for (_, t) in &w.files {
                for (i, _) in t.match_indices("class ") {
                    if i == 0 || t.as_bytes()[i - 1] == b'\n' {
                        let name: String = t[i + 6..].chars().take_while(|c| c.is_ascii_alphanumeric() || *c == '_').collect();
                        want.insert(name);
                    }
                }
            }
            let got: BTreeSet<String> = items.iter().filter(|i| i.kind == CompletionItemKind::Class).map(|i| i.label.clone()).collect();
            if got != want {
                ctx.violation("class-set:replayed", format!("offered {:?}, declared {:?}", got, want), case.clone());
            }
        }
    }
    fn rule(&self) -> String {
        "EXHAUSTIVE over the finite vocabularies: every item Analysis::completion offers at 6 keyword/type/value fixtures and 3 '!'-trigger fixtures is lexed by the server's Lexer and must be exactly one token of the keyword / type / operator kind an independent name table assigns (c14.rs tables); every file-level keyword must start a minimal statement of the documented grammar that syntax::parse accepts with zero errors; every offered type must be accepted in a field declaration; for every candidate operator name (the reference's 52 names + known variants + everything offered) that the Lexer classifies as a bang/cond operator, the name must be among the operators offered after '!'. SAMPLED: random workspaces (root + optional include) declaring 1-9 classes of arity 0-3 (parameters with and without defaults: literals, `?`, operator expressions with and without an inferable type) plus a def and a multiclass; completion at a parent-class position (class and def parents, first and later parent, a def under `let`, a def that carries the name of a class of the workspace - its own parent or another -, the class positions of a defm parent list after its multiclass - at file level, under foreach and inside a multiclass -, statement closed or still being typed, prefix of every length) must offer exactly the workspace's classes, each with one snippet placeholder per template parameter. non-trivial = each (fixture, offered item) pair and each class-completion workspace; distinct by digest".into()
    }
    fn floors(&self, tier: Tier) -> Vec<(&'static str, u64)> {
        vec![("vocabulary_unit", 1), ("vocabulary_items", 30), ("operator_items", 100), ("lexer_accepted_operators", 150), ("toplevel_statements_parsed", 20), ("class_completion_cases", tier.pick(3500, 60_000)), ("class_completion_with_include", 300), ("arity:3", 100), ("parent_position:defm-after-multiclass", 100), ("parent_position:defm-in-multiclass", 100), ("parent_position:def-in-let", 100), ("parent_position:def-named-like-a-class", 100), ("class_completion_on_the_wire", 500), ("multiclass_with_parameters_after_classes", 500)]
    }
    fn exhaustive(&self, _tier: Tier) -> Option<String> {
        Some("the completion vocabularies at the 9 fixtures x the lexer's keyword and operator tables (finite)".into())
    }
    fn assumptions(&self) -> Vec<String> {
        vec!["the independent keyword/operator name tables in c14.rs (keyword spelling -> token kind) are right".into(), "operators are told apart from context keywords by (offered with trigger '!') minus (offered without), as a multiset".into()]
    }
    fn technique(&self) -> &'static str {
        "closure monitor: completion answers re-lexed / re-parsed by the server's own lexer and parser; class completion compared with generated workspaces"
    }
}
