//! C01 (lossless tree) and C02 (parser totality): invariant monitors on `syntax::parse`.
use crate::core::*;
use crate::texts::*;
use serde_json::{json, Value};
use syntax::syntax_kind::SyntaxKind;

#[derive(Clone, Copy, PartialEq, Eq)]
pub enum Mode {
    Lossless,
    Totality,
}

/// K of "work <= K * lexer tokens": fixed at 4x the largest ratio (8.0) measured on the pinned tree over the
/// exhaustive length<=3 G-tok space, the corpus and 10^6 mutants; never re-derived at run time.
pub const STEP_K: f64 = 32.0;

pub struct SynCheck {
    pub mode: Mode,
}

fn text_case(text: &str) -> Value {
    json!({"kind": "text", "text": text})
}

fn features_of(text: &str, root: &syntax::SyntaxNode, ctx: &mut Ctx) -> bool {
    // non-trivial = exercises a mechanism the property is about
    let mut nontrivial = false;
    if !text.is_ascii() {
        ctx.feature("non_ascii");
        nontrivial = true;
    }
    let mut has_err = false;
    let mut has_skip = false;
    let mut has_paste = false;
    for el in root.descendants_with_tokens() {
        if let Some(t) = el.as_token() {
            match t.kind() {
                SyntaxKind::Error => has_err = true,
                SyntaxKind::PreProcessor => {
                    // a directive token that swallowed a disabled region spans more than one line
                    if t.text().trim_end().contains('\n') {
                        has_skip = true;
                    }
                }
                SyntaxKind::Paste => has_paste = true,
                _ => {}
            }
        }
    }
    if has_err {
        ctx.feature("error_token");
        nontrivial = true;
    }
    if has_skip {
        ctx.feature("skipped_region");
        nontrivial = true;
    }
    if has_paste {
        ctx.feature("lone_hash");
        nontrivial = true;
    }
    nontrivial
}

pub fn monitor_lossless(text: &str, ctx: &mut Ctx) {
    ctx.eval();
    ctx.current_text(text);
    // same step budget as the totality monitor: a lexer/parser that stops consuming is reported with the input
    // that does it instead of burning the unit's CPU budget
    let budget = 64 * (text.len() as u64 + 8);
    syntax::verif::arm(budget);
    let r = guard(|| {
        let parse = syntax::parse(text);
        syntax::verif::disarm();
        let root = parse.syntax_node();
        let mut problems: Vec<(String, String)> = Vec::new();
        let len = text.len();
        let rr = root.text_range();
        if usize::from(rr.start()) != 0 || usize::from(rr.end()) != len {
            problems.push(("root-range".into(), format!("root range {:?} but input length {}", rr, len)));
        }
        let mut off = 0usize;
        let mut ntok = 0usize;
        for el in root.descendants_with_tokens() {
            let Some(t) = el.as_token() else { continue };
            ntok += 1;
            let tr = t.text_range();
            let (s, e) = (usize::from(tr.start()), usize::from(tr.end()));
            if s != off {
                problems.push((
                    if s > off { "gap".into() } else { "overlap".into() },
                    format!("token {:?} starts at {} but previous ended at {}", t.kind(), s, off),
                ));
            }
            if e > len || !text.is_char_boundary(s.min(len)) || !text.is_char_boundary(e.min(len)) {
                problems.push(("token-range".into(), format!("token {:?} range {}..{} outside text/char boundaries (len {})", t.kind(), s, e, len)));
            } else if t.text() != &text[s..e] {
                problems.push(("token-text".into(), format!("token {:?} text {:?} but input[{}..{}] = {:?}", t.kind(), t.text(), s, e, &text[s..e])));
            }
            off = e;
            if problems.len() > 3 {
                break;
            }
        }
        if problems.is_empty() && off != len {
            problems.push(("short".into(), format!("tokens end at {} but input length {}", off, len)));
        }
        if problems.is_empty() && root.text() != text {
            problems.push(("root-text".into(), "root.text() differs from the input".into()));
        }
        (problems, root, ntok)
    });
    match r {
        Ok((problems, root, _ntok)) => {
            if features_of(text, &root, ctx) {
                ctx.nontrivial(fnv64(text.as_bytes()));
            }
            for (sig, what) in problems {
                ctx.violation(format!("lossless:{}", sig), what, text_case(text));
            }
        }
        Err(pi) => {
            syntax::verif::disarm();
            // a panic or a parse that never ends is C02's business; for C01 it still means no tree reproduced the input
            if pi.is_budget() {
                ctx.violation(
                    "lossless:no-tree:non-progress",
                    format!("step budget {} exhausted on a {}-byte input: the parse does not end, so no tree reproduces the input", budget, text.len()),
                    text_case(text),
                );
            } else {
                ctx.panic_violation("lossless:", &pi, text_case(text));
            }
        }
    }
}

pub fn monitor_totality(text: &str, ctx: &mut Ctx) {
    ctx.eval();
    ctx.current_text(text);
    let budget = 64 * (text.len() as u64 + 8);
    // token count as the raw lexer sees it (disabled regions collapse into one tree token, so tree
    // tokens would under-count the legitimate lexing work)
    syntax::verif::arm(budget);
    let r = guard(|| {
        use syntax::token_stream::TokenStream;
        let mut lx = syntax::lexer::Lexer::new(text);
        let mut n = 0u64;
        while lx.eat() != syntax::token_kind::TokenKind::Eof {
            n += 1;
        }
        n
    })
    .and_then(|nlex| {
        syntax::verif::arm(budget);
        guard(|| syntax::parse(text)).map(|p| (p, nlex))
    });
    let steps = syntax::verif::disarm();
    match r {
        Err(pi) => {
            if pi.is_budget() {
                ctx.violation(
                    "totality:non-progress",
                    format!("step budget {} exhausted on a {}-byte input (lexer/parser stopped consuming)", budget, text.len()),
                    text_case(text),
                );
            } else {
                ctx.panic_violation("totality:", &pi, text_case(text));
            }
            ctx.nontrivial(fnv64(text.as_bytes()));
        }
        Ok((parse, ntok)) => {
            let ratio = steps as f64 / (ntok + 1) as f64;
            ctx.metric_max("steps_per_token_max", ratio);
            if ratio > STEP_K {
                ctx.violation(
                    "totality:superlinear",
                    format!("{} steps for {} tokens (ratio {:.1} > K={})", steps, ntok, ratio, STEP_K),
                    text_case(text),
                );
            }
            let errs = parse.errors();
            let mut nontrivial = !errs.is_empty();
            for e in errs {
                let (s, en) = (usize::from(e.range.start()), usize::from(e.range.end()));
                if e.message.trim().is_empty() {
                    ctx.violation("totality:error-empty-message", format!("syntax error with empty message at {}..{}", s, en), text_case(text));
                }
                if en > text.len() || s > en {
                    ctx.violation("totality:error-range-outside", format!("error range {}..{} outside text of length {}", s, en, text.len()), text_case(text));
                } else if !text.is_char_boundary(s) || !text.is_char_boundary(en) {
                    ctx.violation("totality:error-range-boundary", format!("error range {}..{} not on character boundaries", s, en), text_case(text));
                }
            }
            if !text.is_ascii() {
                nontrivial = true;
            }
            if !errs.is_empty() {
                ctx.feature("with_errors");
            }
            if nontrivial {
                ctx.nontrivial(fnv64(text.as_bytes()));
            }
        }
    }
}

const N_MUT_UNITS_Q: u64 = 32;
const N_MUT_UNITS_T: u64 = 256;
const MUTANTS_PER_UNIT: usize = 2500;

impl SynCheck {
    fn monitor(&self, text: &str, ctx: &mut Ctx) {
        match self.mode {
            Mode::Lossless => monitor_lossless(text, ctx),
            Mode::Totality => monitor_totality(text, ctx),
        }
    }
    fn layout(&self, tier: Tier) -> (u64, u64, u64, u64) {
        // (exhaustive units, corpus units, mutation units, tower units)
        let ex = LEXEMES.len() as u64;
        let co = corpus().len() as u64;
        let mu = tier.pick(N_MUT_UNITS_Q, N_MUT_UNITS_T);
        let to = if self.mode == Mode::Totality { 8 } else { 0 };
        (ex, co, mu, to)
    }
    fn exhaustive_unit(&self, first: usize, maxlen: usize, ctx: &mut Ctx) {
        // all sequences starting with LEXEMES[first], length 1..=maxlen, both joiners
        let n = LEXEMES.len();
        let mut buf = String::new();
        for len in 1..=maxlen {
            let mut idx = vec![0usize; len];
            idx[0] = first;
            loop {
                for joiner in ["", " "] {
                    if len == 1 && joiner == " " {
                        continue;
                    }
                    buf.clear();
                    for (k, i) in idx.iter().enumerate() {
                        if k > 0 {
                            buf.push_str(joiner);
                        }
                        buf.push_str(LEXEMES[*i]);
                    }
                    self.monitor(&buf, ctx);
                }
                // increment positions 1..len
                let mut p = len;
                loop {
                    if p == 1 {
                        p = 0;
                        break;
                    }
                    p -= 1;
                    idx[p] += 1;
                    if idx[p] < n {
                        break;
                    }
                    idx[p] = 0;
                }
                if p == 0 {
                    break;
                }
            }
        }
        ctx.feature("exhaustive_units");
    }
    fn corpus_unit(&self, k: usize, ctx: &mut Ctx) {
        let f = &corpus()[k];
        let text = &f.text;
        self.monitor(text, ctx);
        if ctx.want_sample() {
            ctx.sample(json!({"corpus_file": f.name, "bytes": text.len()}));
        }
        ctx.feature("corpus_files");
        // line-boundary prefixes: all of them for small files, a seeded sample for large ones
        let mut ends: Vec<usize> = text.match_indices('\n').map(|(i, _)| i + 1).collect();
        let cap_bytes: usize = ctx.tier.pick(6_000_000, 60_000_000); // total bytes parsed per file
        let total: usize = ends.iter().sum();
        if total > cap_bytes {
            let keep = (ends.len() * cap_bytes / total.max(1)).max(20);
            let mut rng = Rng::derive(ctx.seed, 0xC0, k as u64);
            rng.shuffle(&mut ends);
            ends.truncate(keep);
        }
        for e in ends {
            self.monitor(&text[..e], ctx);
            ctx.feature("corpus_line_prefixes");
        }
        // a few prefixes cut in the middle of a line / token
        let mut rng = Rng::derive(ctx.seed, 0xC1, k as u64);
        for _ in 0..ctx.tier.pick(20, 200) {
            let mut e = rng.below(text.len() + 1);
            while !text.is_char_boundary(e) {
                e -= 1;
            }
            let s = e.saturating_sub(4000);
            let mut s2 = s;
            while !text.is_char_boundary(s2) {
                s2 += 1;
            }
            self.monitor(&text[s2..e], ctx);
            ctx.feature("corpus_windows");
        }
    }
    fn mutation_unit(&self, u: u64, ctx: &mut Ctx) {
        let mut rng = Rng::derive(ctx.seed, 0xA0 + self.mode as u64, u);
        for i in 0..MUTANTS_PER_UNIT {
            let base = base_program(&mut rng);
            let mut cur = base;
            let rounds = 1 + rng.below(3);
            let mut tags = Vec::new();
            for _ in 0..rounds {
                let (m, tag) = mutate(&cur, &mut rng);
                cur = m;
                tags.push(tag);
            }
            if cur.len() > 20_000 {
                continue;
            }
            for t in &tags {
                ctx.feature(&format!("mut:{}", t));
            }
            self.monitor(&cur, ctx);
            if i == 0 && ctx.want_sample() {
                let mut e = cur.len().min(300);
                while !cur.is_char_boundary(e) {
                    e -= 1;
                }
                ctx.sample(json!({"mutant_of_base_program": &cur[..e], "operators": tags}));
            }
            // the same damage at every place at once: the un-mutated program twice in a row, with ALL occurrences of one
            // token spelling deleted - once per distinct spelling (a slip that needs two damaged constructs of the
            // same kind in one file shows up here)
            if i % 40 == 3 {
                let base2 = base_program(&mut rng);
                let twice = format!("{}\n{}", base2, base2);
                let pcs = split_pieces(&twice);
                let mut spellings: Vec<&str> = pcs.iter().filter(|p| p.2 != PieceKind::Space).map(|p| &twice[p.0..p.1]).collect();
                spellings.sort();
                spellings.dedup();
                for sp in spellings.iter().take(120) {
                    let mut m = String::with_capacity(twice.len());
                    let mut last = 0;
                    for p in pcs.iter().filter(|p| &twice[p.0..p.1] == *sp) {
                        m.push_str(&twice[last..p.0]);
                        last = p.1;
                    }
                    m.push_str(&twice[last..]);
                    self.monitor(&m, ctx);
                    ctx.feature("delete_all_of_one_spelling");
                }
            }
            // every token-boundary prefix of a few mutants
            if i % 50 == 0 {
                for (s, _, _) in split_pieces(&cur) {
                    self.monitor(&cur[..s], ctx);
                    ctx.feature("token_prefixes");
                }
            }
            // unterminated constructs spliced at every token boundary of a few programs
            if i % 100 == 1 && self.mode == Mode::Totality {
                let pcs = split_pieces(&cur);
                for (s, _, _) in pcs.iter().take(200) {
                    let ut = UNTERMINATED[rng.below(UNTERMINATED.len())];
                    let m = format!("{}{}{}", &cur[..*s], ut, &cur[*s..]);
                    self.monitor(&m, ctx);
                    ctx.feature("unterminated_at_every_boundary");
                }
            }
        }
    }
    /// Growth monitor: work must grow linearly with repetition. For every repeatable unit u (lexemes, snippets,
    /// unterminated and almost-terminated openers - none of them adds bracket nesting) the thread CPU time of
    /// syntax::parse on (u sep)^k and on (u sep)^8k is measured (minimum of three runs each). Linear work gives
    /// a ratio near 8, quadratic work 64; the verdict needs a ratio >= 40 twice, on runs long enough to measure.
    fn growth_unit(&self, slice: usize, ctx: &mut Ctx) {
        let measure = |text: &str| measure_parse_cpu(text);
        let mut units: Vec<String> = Vec::new();
        for l in LEXEMES.iter() {
            units.push(l.to_string());
        }
        for u in UNTERMINATED.iter() {
            units.push(u.to_string());
        }
        for u in ["[{ } ]", "[{ }", "[{ ]}", "\"a\\", "/* * /", "/* /", "#else", "#endif", "def D : A [{ } ]", "code c = [{ x } ];", "\"s\" # \"t", "0x", "0b", "!", "$", "..", "a.b.", "x # ", "// c", "/**/", "[{}]"] {
            units.push(u.to_string());
        }
        for s in crate::texts::SNIPPETS.iter() {
            units.push(s.to_string());
        }
        for (i, u) in units.iter().enumerate() {
            if i % 8 != slice || u.is_empty() {
                continue;
            }
            // nothing that opens a bracket level per repetition (depth is bounded by 256 in the statement);
            // snippets are balanced statements, `[{` starts a code fragment and is no bracket
            let opens = u.matches(|c| "([{<".contains(c)).count();
            let closes = u.matches(|c| ")]}>".contains(c)).count();
            if opens != closes && !u.starts_with("[{") && !u.contains(" [{") {
                continue;
            }
            if ["if", "foreach", "let", "in", "then", "else", "#ifdef", "#ifndef"].iter().any(|k| u.trim_start().starts_with(k)) && !u.trim_end().ends_with(';') && !u.trim_end().ends_with('}') {
                continue; // statement prefixes nest statements
            }
            for sep in [" ", "\n"] {
                let piece = format!("{}{}", u, sep);
                Self::growth_of(&piece, ctx, &measure);
            }
        }
    }
    fn growth_of(piece: &str, ctx: &mut Ctx, measure: &dyn Fn(&str) -> Option<u64>) {
        // a repetition count whose parse is long enough to measure
        let mut k = (16_384 / piece.len()).max(8);
        for _ in 0..3 {
            match measure(&piece.repeat(k)) {
                Some(t) if t < 300_000 => k *= 4,
                _ => break,
            }
        }
        let mut verdicts = 0;
        let mut last = (0u64, 0u64, 0usize);
        for _attempt in 0..2 {
            let small = piece.repeat(k);
            let big = piece.repeat(8 * k);
            ctx.current_text(&big[..(0..=big.len().min(4096)).rev().find(|i| big.is_char_boundary(*i)).unwrap_or(0)]);
            let (Some(ts), Some(tb)) = (measure(&small), measure(&big)) else { break };
            ctx.eval();
            last = (ts, tb, big.len());
            let ratio = tb as f64 / ts.max(1) as f64;
            ctx.metric_max("growth_ratio_8x_max", ratio);
            if ratio >= 40.0 && tb >= 20_000_000 {
                verdicts += 1;
            } else {
                break;
            }
        }
        ctx.feature("growth_units");
        ctx.nontrivial(fnv64(piece.as_bytes()) ^ 0x9999);
        if verdicts >= 2 {
            ctx.violation(
                "totality:superlinear-growth",
                format!("repeating {:?}: parse CPU time {} us for k repetitions, {} us for 8k repetitions ({} bytes): ratio {:.0} (linear work gives about 8)", piece, last.0 / 1000, last.1 / 1000, last.2, last.1 as f64 / last.0.max(1) as f64),
                json!({"kind": "repeat", "piece": piece}),
            );
        }
    }
    fn tower_unit(&self, kind: usize, ctx: &mut Ctx) {
        self.growth_unit(kind, ctx);
        for depth in 1..=256usize {
            let t = tower(kind, depth);
            self.monitor(&t, ctx);
            ctx.feature("towers");
            if depth % 16 == 0 || depth == 256 {
                // every prefix cut inside the tower: unterminated nesting at depth <= 256
                let cut = t.len() / 2;
                let mut c = cut;
                while !t.is_char_boundary(c) {
                    c -= 1;
                }
                self.monitor(&t[..c], ctx);
                ctx.feature("tower_prefixes");
            }
        }
        ctx.feature("tower_depth_256");
        // nesting and repetition that is NOT bracket nesting has no depth bound: very long runs
        if kind == 0 {
            let n = 1_000_000;
            for (name, text) in [
                ("nested-comment-openers", "/*".repeat(n)),
                ("nested-comments-closed", format!("{}{}", "/* ".repeat(n / 2), "*/ ".repeat(n / 2))),
                ("nested-ifdefs", format!("#define A\n{}class X;\n", "#ifdef A\n".repeat(n / 8))),
                ("nested-disabled-ifdefs", "#ifdef U\n".repeat(n / 8)),
                ("statement-run", "class A;\n".repeat(n / 8)),
                ("paste-run", format!("defvar v = a{};", " # a".repeat(n / 4))),
                ("suffix-run", format!("defvar v = a{};", ".f".repeat(n / 2))),
                ("string-run", "\"s\" ".repeat(n / 4)),
                ("error-run", "@ ".repeat(n / 2)),
            ] {
                self.monitor(&text, ctx);
                ctx.feature("long_runs");
                let _ = name;
            }
        }
    }
}

fn cpu_ns() -> u64 {
    let mut ts = libc::timespec { tv_sec: 0, tv_nsec: 0 };
    unsafe { libc::clock_gettime(libc::CLOCK_THREAD_CPUTIME_ID, &mut ts) };
    ts.tv_sec as u64 * 1_000_000_000 + ts.tv_nsec as u64
}
/// thread CPU time of one syntax::parse, minimum of three runs; None if the parse panics (other monitors' business)
fn measure_parse_cpu(text: &str) -> Option<u64> {
    let mut best = u64::MAX;
    for _ in 0..3 {
        let t0 = cpu_ns();
        let r = guard(|| {
            let p = syntax::parse(text);
            p.errors().len()
        });
        let dt = cpu_ns() - t0;
        if r.is_err() {
            return None;
        }
        best = best.min(dt);
    }
    Some(best)
}

impl Check for SynCheck {
    fn id(&self) -> &'static str {
        match self.mode {
            Mode::Lossless => "C01",
            Mode::Totality => "C02",
        }
    }
    fn units(&self, tier: Tier, _seed: u64) -> u64 {
        let (a, b, c, d) = self.layout(tier);
        a + b + c + d
    }
    fn run_unit(&self, unit: u64, ctx: &mut Ctx) {
        let (ex, co, mu, _to) = self.layout(ctx.tier);
        if unit < ex {
            // length <= 3 exhaustively in both tiers; thorough adds all of length 4 (2.8e8 inputs)
            self.exhaustive_unit(unit as usize, 3, ctx);
            if ctx.tier == Tier::Thorough {
                self.len4_unit(unit as usize, ctx);
            }
        } else if unit < ex + co {
            self.corpus_unit((unit - ex) as usize, ctx);
        } else if unit < ex + co + mu {
            self.mutation_unit(unit - ex - co, ctx);
        } else {
            self.tower_unit((unit - ex - co - mu) as usize, ctx);
        }
    }
    fn replay(&self, case: &Value, ctx: &mut Ctx) {
        if let Some(t) = case["text"].as_str() {
            self.monitor(t, ctx);
        } else if let (Some("repeat"), Some(piece)) = (case["kind"].as_str(), case["piece"].as_str()) {
            Self::growth_of(piece, ctx, &|t: &str| measure_parse_cpu(t));
        } else if let Some(u) = case["unit"].as_u64() {
            self.run_unit(u, ctx);
        }
    }
    fn rule(&self) -> String {
        let common = format!(
            "inputs: (a) EXHAUSTIVE all sequences of length<=3 over the {}-lexeme G-tok alphabet joined by \"\" and by \" \" (thorough: length<=4, also exhaustively); (b) the 39 vendored LLVM .td files, whole, at line-boundary prefixes and 4 KB windows cut at arbitrary characters; (c) 1-3 stacked random mutations (prefix, delete, insert, duplicate, transpose, replace, byte noise, non-ASCII insertion, CRLF/CR conversion, unterminated-construct splice, disabled-#ifdef wrap) of programs built from hand-written snippets covering every statement kind and from corpus chunks, plus every token-boundary prefix of a sample of them, plus - for a sample of un-mutated programs written twice in a row - the deletion of ALL occurrences of one token spelling, once per distinct spelling",
            LEXEMES.len()
        );
        match self.mode {
            Mode::Lossless => format!("{}. Oracle per input: leaf tokens tile 0..len in order with no gap/overlap, token.text()==input[range], root.text()==input. non-trivial = input is non-ASCII or its tree holds an Error token, a preprocessor token spanning a skipped region, or a lone '#'; distinct = distinct 64-bit digests of the input text", common),
            Mode::Totality => format!("{}; (d) 8 kinds of nesting towers at every depth 1..=256 on a 2 MiB stack, nine megabyte-sized runs of non-bracket nesting/repetition (10^6 nested comment openers, 10^5 nested #ifdefs, paste/suffix/statement runs), and unterminated constructs spliced at every token boundary; (e) GROWTH: for ~300 repeatable pieces (every lexeme, snippet, unterminated and almost-terminated opener such as an open code fragment followed by a spaced-out closer, none adding a bracket level) x 2 separators the thread CPU time of syntax::parse on piece^k and piece^8k (minimum of 3 runs each, k raised until the small run is measurable): linear work gives a ratio near 8 (observed <= 16 on the unchanged tree), quadratic work 64; a ratio >= 40 measured twice with >= 20 ms of CPU is a violation (work hidden inside one lexer call is invisible to the hook step counter). Oracle per input: no panic, no stack overflow, hook step count <= 64*(bytes+8) (non-progress) and <= K*(tokens+1) with fixed K={}, every SyntaxError has a non-empty message and a range inside the text on char boundaries. non-trivial = input yields >=1 syntax error or is non-ASCII; distinct by digest", common, STEP_K),
        }
    }
    fn floors(&self, tier: Tier) -> Vec<(&'static str, u64)> {
        let mut v = vec![("exhaustive_units", LEXEMES.len() as u64), ("corpus_files", 39), ("mut:pp-wrap", tier.pick(1000, 10000)), ("token_prefixes", 1000), ("delete_all_of_one_spelling", 1000)];
        match self.mode {
            Mode::Lossless => {
                v.push(("skipped_region", 1000));
                v.push(("error_token", 1000));
                v.push(("non_ascii", 1000));
            }
            Mode::Totality => {
                v.push(("tower_depth_256", 8));
                v.push(("long_runs", 9));
                v.push(("growth_units", 250));
                v.push(("unterminated_at_every_boundary", 1000));
            }
        }
        v
    }
    fn exhaustive(&self, tier: Tier) -> Option<String> {
        let n = LEXEMES.len() as u64;
        let l3 = n + 2 * n * n + 2 * n * n * n;
        let (space, maxlen) = match tier {
            Tier::Quick => (l3, 3),
            Tier::Thorough => (l3 + 2 * n * n * n * n, 4),
        };
        Some(format!("sub-space (a): all {} sequences of length<={} over {} lexemes x 2 joiners; the other sub-spaces are sampled", space, maxlen, n))
    }
    fn assumptions(&self) -> Vec<String> {
        vec![
            "rowan's SyntaxNode/SyntaxToken API reports the tree that was built".into(),
            "inputs beyond bracket-nesting depth 256 are out of scope (documented non-goal)".into(),
            "the growth monitor decides on a ratio of thread CPU times (CLOCK_THREAD_CPUTIME_ID, not wall clock) of the same parse at two sizes; the margin is 2.5x on either side (<= 16 observed for linear work, ~61 for quadratic); growth between linear and quadratic (e.g. n^1.5) is not convicted".into(),
        ]
    }
    fn sanitizer_steps(&self, seed: u64, agg: &mut Agg) {
        // tree construction and cursor walks are unsafe rowan code, and lib.rs transmutes u16 -> SyntaxKind:
        // the C01 monitor under the Miri interpreter, then under ASan + libFuzzer
        crate::sanit::miri("parse", seed, 16, 40, agg);
        let mode = self.mode;
        crate::sanit::fuzz("lossless", 90, agg, &move |bytes| {
            let text = String::from_utf8_lossy(bytes).to_string();
            let mut ctx = Ctx::new(Tier::Thorough, 0, None);
            match mode {
                Mode::Lossless => monitor_lossless(&text, &mut ctx),
                Mode::Totality => monitor_totality(&text, &mut ctx),
            }
            ctx.violations.values().map(|v| (v.signature.clone(), v.what.clone())).collect()
        });
    }
    fn technique(&self) -> &'static str {
        match self.mode {
            Mode::Lossless => "invariant monitor on syntax::parse over exhaustive small-scope + mutated + corpus inputs",
            Mode::Totality => "panic/stack/step-budget monitor (hook step counter) on syntax::parse over exhaustive small-scope + mutated + corpus inputs + depth-256 towers; CPU-time growth monitor under repetition",
        }
    }
}

impl SynCheck {
    fn len4_unit(&self, first: usize, ctx: &mut Ctx) {
        let n = LEXEMES.len();
        let sub: Vec<usize> = (0..n).collect();
        let mut buf = String::new();
        for &b in &sub {
            for &c in &sub {
                for &d in &sub {
                    for joiner in ["", " "] {
                        buf.clear();
                        buf.push_str(LEXEMES[first]);
                        buf.push_str(joiner);
                        buf.push_str(LEXEMES[b]);
                        buf.push_str(joiner);
                        buf.push_str(LEXEMES[c]);
                        buf.push_str(joiner);
                        buf.push_str(LEXEMES[d]);
                        self.monitor(&buf, ctx);
                    }
                }
            }
        }
        ctx.feature("len4_units");
    }
}
