//! C05 (name resolution), C13 (diagnostics sound/complete), C18 (outline/folding), C19 (hover/inlay hints):
//! monitors comparing the real `ide::Analysis` with expectations that G-prog knows by construction.
use crate::core::*;
use crate::gprog::{self, audit, Cfg, DeclKind, OutlineNode, Program};
use crate::gprog::model::FaultSite;
use crate::ws;
use ide::file_system::{FileId, FilePosition, FileRange};
use serde_json::{json, Value};
use std::collections::{BTreeMap, BTreeSet};
use text_size::{TextRange, TextSize};

#[derive(Clone, Copy, PartialEq, Eq)]
pub enum GMode {
    Resolution,
    Diagnostics,
    Outline,
    Hover,
}
pub struct GCheck {
    pub mode: GMode,
}

struct L {
    l: ws::Loaded,
    ids: Vec<Option<FileId>>,
}
fn load(p: &Program) -> L {
    let l = ws::load(&p.workspace());
    let ids = p.files.iter().map(|(path, _)| l.fs.id_of(path)).collect();
    L { l, ids }
}
fn fr(l: &L, file: usize, range: (usize, usize)) -> Option<FileRange> {
    Some(FileRange::new(l.ids[file]?, TextRange::new((range.0 as u32).into(), (range.1 as u32).into())))
}
fn squash(msg: &str) -> String {
    // message with names / numbers erased, for signatures
    let mut out = String::new();
    let mut in_word = false;
    for w in msg.split(' ') {
        let generic = w.chars().any(|c| c.is_ascii_digit() || c == '_' || c == '\'' || c == '<');
        if generic {
            if !in_word {
                out.push_str("# ");
            }
            in_word = true;
        } else {
            out.push_str(w);
            out.push(' ');
            in_word = false;
        }
    }
    out.trim().chars().take(60).collect()
}

impl GCheck {
    fn cfg(&self, rng: &mut Rng, k: u64) -> Cfg {
        let mut c = Cfg::default_for(rng);
        match self.mode {
            GMode::Resolution => {
                c.docs = rng.chance(1, 4);
                c.dead_use = k % 3 == 0;
            }
            GMode::Diagnostics => {}
            GMode::Outline => {
                c.paste_names = false;
                c.forward_decls = true;
            }
            GMode::Hover => {
                c.docs = true;
                c.forward_decls = true;
            }
        }
        c
    }

    fn program_case(&self, unit: u64, k: u64, ctx: &mut Ctx) {
        let mut rng = Rng::derive(ctx.seed, 0x6000 + self.mode as u64, unit * 100_000 + k);
        let cfg = self.cfg(&mut rng, k);
        let p = gprog::generate(&mut rng, cfg);
        self.check_program(&p, &mut rng, ctx, true);
    }

    fn check_program(&self, p: &Program, rng: &mut Rng, ctx: &mut Ctx, with_audit: bool) {
        let case = p.to_json();
        ctx.current_json(&case);
        // audit by llvm-tblgen: clean programs must be accepted, programs with a dead use rejected
        if with_audit && audit::available() {
            match audit::run(p, match self.mode { GMode::Resolution => "C05", GMode::Diagnostics => "C13", GMode::Outline => "C18", GMode::Hover => "C19" }) {
                audit::Audit::Accepted if !p.dead_uses.is_empty() => {
                    ctx.feature("audit_discarded");
                    ctx.note("llvm-tblgen accepts a program with a dead use: discarded");
                    return;
                }
                audit::Audit::Rejected(e) if p.dead_uses.is_empty() => {
                    ctx.feature("audit_discarded");
                    ctx.note(format!("llvm-tblgen rejects a 'well-formed' program: {}", e.chars().take(120).collect::<String>()));
                    return;
                }
                audit::Audit::Unavailable => ctx.feature("audit_unavailable_for_sample"),
                _ => ctx.feature("audit_agreed"),
            }
        }
        for f in &p.features {
            ctx.feature(&format!("gen:{}", f));
        }
        ctx.feature("programs");
        if p.files.len() > 1 {
            ctx.feature("programs_with_includes");
        }
        ctx.nontrivial(p.workspace().digest());
        if ctx.want_sample() {
            ctx.sample(json!({"files": p.files.iter().map(|(n, t)| json!({"path": n, "text": t})).collect::<Vec<_>>(), "decls": p.decls.len(), "uses": p.uses.len()}));
        }
        let r = guard(|| {
            let l = load(p);
            let mut v: Vec<(String, String)> = Vec::new();
            match self.mode {
                GMode::Resolution => resolution(p, &l, &mut v, ctx),
                GMode::Outline => outline(p, &l, &mut v, ctx),
                GMode::Hover => hover_hints(p, &l, rng, &mut v, ctx),
                GMode::Diagnostics => clean_diagnostics(p, &l, &mut v, ctx),
            }
            v
        });
        match r {
            Err(pi) => ctx.panic_violation("analysis:", &pi, case.clone()),
            Ok(v) => {
                for (sig, what) in v {
                    ctx.violation(sig, what, case.clone());
                }
            }
        }
        if self.mode == GMode::Diagnostics {
            self.faults(p, rng, ctx, with_audit);
        }
    }

    fn faults(&self, p: &Program, rng: &mut Rng, ctx: &mut Ctx, with_audit: bool) {
        // a sample of the eligible sites, round-robin over the fault classes so that every class is visited
        let mut by_class: BTreeMap<&str, Vec<usize>> = BTreeMap::new();
        for (i, s) in p.fault_sites.iter().enumerate() {
            by_class.entry(s.class).or_default().push(i);
        }
        let per_class = ctx.tier.pick(1, 2);
        for (class, idxs) in by_class {
            for _ in 0..per_class {
                let site = &p.fault_sites[idxs[rng.below(idxs.len())]];
                let q = p.apply_fault(site);
                let mut case = q.to_json();
                case["fault"] = json!({"class": class, "file": p.files[site.file].0, "expect": [site.expect.0, site.expect.1]});
                ctx.eval();
                ctx.current_json(&case);
                if with_audit && audit::available() {
                    match audit::run(&q, "C13f") {
                        audit::Audit::Accepted => {
                            ctx.feature("audit_discarded_fault");
                            ctx.feature(&format!("audit_discarded_fault:{}", class));
                            continue;
                        }
                        audit::Audit::Unavailable => continue,
                        _ => {}
                    }
                }
                ctx.feature(&format!("fault:{}", class));
                if site.file != p.root {
                    ctx.feature("fault_in_included_file");
                }
                ctx.nontrivial(q.workspace().digest());
                let r = guard(|| {
                    let l = load(&q);
                    let d = l.l.analysis().diagnostics();
                    let mut per_file: BTreeMap<usize, Vec<(usize, usize, String)>> = BTreeMap::new();
                    for (fid, ds) in d {
                        if let Some(fi) = l.ids.iter().position(|x| *x == Some(fid)) {
                            for x in ds {
                                per_file.entry(fi).or_default().push((usize::from(x.location.range.start()), usize::from(x.location.range.end()), x.message));
                            }
                        }
                    }
                    per_file
                });
                match r {
                    Err(pi) => ctx.panic_violation("analysis-on-fault:", &pi, case),
                    Ok(per_file) => {
                        let here = per_file.get(&site.file).cloned().unwrap_or_default();
                        let covered = here.iter().any(|(s, e, _)| *s <= site.expect.1 && *e >= site.expect.0);
                        if !covered {
                            ctx.violation(
                                format!("fault-undetected:{}{}", class, if site.file != p.root { ":in-included-file" } else { "" }),
                                format!("seeded {} at {}..{} of {}: no diagnostic covers it (diagnostics there: {:?})", class, site.expect.0, site.expect.1, p.files[site.file].0, here),
                                case.clone(),
                            );
                        }
                        // files not on the include path from the fault to the root stay clean
                        let mut on_path: BTreeSet<usize> = BTreeSet::new();
                        let mut cur = site.file;
                        on_path.insert(cur);
                        while let Some((parent, _)) = p.includes.iter().find(|(_, c)| *c == cur) {
                            on_path.insert(*parent);
                            cur = *parent;
                        }
                        // a fault in a file reaches everything analysed after it: only files wholly BEFORE the
                        // fault in include order are untouched
                        for (fi, ds) in &per_file {
                            let before = *fi != site.file && !on_path.contains(fi) && file_ends_before(p, *fi, site.file);
                            if before && !ds.is_empty() {
                                ctx.violation(format!("fault-leaks-into-untouched-file:{}", class), format!("{} has diagnostics {:?}", p.files[*fi].0, ds), case.clone());
                            }
                        }
                    }
                }
            }
        }
    }
}

/// true if file `a` is included (and therefore fully analysed) before file `b` is, both included from the root
fn file_ends_before(p: &Program, a: usize, b: usize) -> bool {
    // files are created in include order; an included file ends before any file created later starts
    a != p.root && b != p.root && a < b
}

// ------------------------------------------------------------------------------------------------ C05
fn resolution(p: &Program, l: &L, v: &mut Vec<(String, String)>, ctx: &mut Ctx) {
    let a = l.l.analysis();
    for u in &p.uses {
        if u.optional {
            continue;
        }
        let d = &p.decls[u.decl];
        let want = fr(l, d.file, d.range);
        let Some(fid) = l.ids[u.file] else { continue };
        let probes = [u.range.0, (u.range.0 + u.range.1) / 2, u.range.1 - 1];
        for off in probes {
            ctx.eval();
            let got = a.goto_definition(FilePosition::new(fid, TextSize::from(off as u32)));
            if got != want {
                let cross = if d.file != u.file { ":cross-file" } else { "" };
                v.push((
                    format!("goto:{}:{}:{}{}:{}", u.position, d.kind.name(), d.context, cross, if got.is_none() { "none" } else { "wrong-target" }),
                    format!("use of {} '{}' at {}:{}..{} resolves to {:?}, expected {:?}", d.kind.name(), d.name, p.files[u.file].0, u.range.0, u.range.1, got, want),
                ));
                break;
            }
        }
        ctx.feature(&format!("use:{}", u.position));
        ctx.feature(&format!("use-of:{}", d.kind.name()));
        if d.file != u.file {
            ctx.feature("use:cross-file");
        }
    }
    for (di, d) in p.decls.iter().enumerate() {
        let Some(fid) = l.ids[d.file] else { continue };
        ctx.eval();
        let got = a.references(FilePosition::new(fid, TextSize::from(d.range.0 as u32)));
        let got: BTreeSet<(usize, usize, usize)> = got
            .unwrap_or_default()
            .into_iter()
            .filter_map(|r| Some((l.ids.iter().position(|x| *x == Some(r.file))?, usize::from(r.range.start()), usize::from(r.range.end()))))
            .collect();
        let must: BTreeSet<(usize, usize, usize)> = p.uses.iter().filter(|u| u.decl == di && !u.optional).map(|u| (u.file, u.range.0, u.range.1)).collect();
        let may: BTreeSet<(usize, usize, usize)> = p.uses.iter().filter(|u| u.decl == di).map(|u| (u.file, u.range.0, u.range.1)).collect();
        // a dead use must not be listed either
        let missing: Vec<_> = must.difference(&got).collect();
        let extra: Vec<_> = got.difference(&may).collect();
        if !missing.is_empty() || !extra.is_empty() {
            v.push((
                format!("references:{}:{}:{}", d.kind.name(), d.context, if !missing.is_empty() { "missing" } else { "extra" }),
                format!("references of {} '{}' ({}:{}): missing {:?}, extra {:?}", d.kind.name(), d.name, p.files[d.file].0, d.range.0, missing, extra),
            ));
        }
        // the declaration itself resolves to itself
        let own = a.goto_definition(FilePosition::new(fid, TextSize::from(d.range.0 as u32)));
        if own != fr(l, d.file, d.range) {
            v.push((format!("goto-on-declaration:{}:{}", d.kind.name(), d.context), format!("declaration of '{}' resolves to {:?}", d.name, own)));
        }
        ctx.feature(&format!("decl:{}", d.kind.name()));
    }
    let diags = a.diagnostics();
    for du in &p.dead_uses {
        let d = &p.decls[du.decl];
        let Some(fid) = l.ids[du.file] else { continue };
        ctx.eval();
        ctx.feature(&format!("dead-use:{}", du.construct));
        let got = a.goto_definition(FilePosition::new(fid, TextSize::from(du.range.0 as u32)));
        if got.is_some() && got == fr(l, d.file, d.range) {
            v.push((format!("dead-use-resolves:{}", du.construct), format!("'{}' used after its {} ended still resolves to it", d.name, du.construct)));
        }
        let covered = diags.get(&fid).map(|ds| ds.iter().any(|x| usize::from(x.location.range.start()) <= du.range.1 && usize::from(x.location.range.end()) >= du.range.0)).unwrap_or(false);
        if !covered {
            v.push((format!("dead-use-not-reported:{}", du.construct), format!("'{}' used after its {} ended is not reported as not found", d.name, du.construct)));
        }
    }
}

// ------------------------------------------------------------------------------------------------ C18
fn outline(p: &Program, l: &L, v: &mut Vec<(String, String)>, ctx: &mut Ctx) {
    let a = l.l.analysis();
    for (fi, (path, _)) in p.files.iter().enumerate() {
        let Some(fid) = l.ids[fi] else { continue };
        ctx.eval();
        let got = a.document_symbol(fid).unwrap_or_default();
        fn conv(s: &ide::handlers::document_symbol::DocumentSymbol) -> OutlineNode {
            OutlineNode {
                name: s.name.to_string(),
                kind: match format!("{:?}", s.kind).as_str() {
                    "Class" => "Class",
                    "TemplateArgument" => "TemplateArgument",
                    "Field" => "Field",
                    "Def" => "Def",
                    "Defset" => "Defset",
                    "Multiclass" => "Multiclass",
                    _ => "Other",
                },
                range: (usize::from(s.range.start()), usize::from(s.range.end())),
                children: s.children.iter().map(conv).collect(),
            }
        }
        let got: Vec<OutlineNode> = got.iter().map(conv).collect();
        if let Some((sig, what)) = diff_outline(&got, &p.outline[fi], "file") {
            v.push((format!("outline:{}", sig), format!("{}: {}", path, what)));
        }
        ctx.feature_n("outline_nodes", p.outline[fi].len() as u64);
        for n in &p.outline[fi] {
            ctx.feature(&format!("outline:{}", n.kind));
            if n.kind == "Defset" && !n.children.is_empty() {
                ctx.feature("outline:defset-with-children");
            }
        }
        // folding
        ctx.eval();
        let folds = a.folding_range(fid).unwrap_or_default();
        let got: BTreeSet<(usize, usize)> = folds.iter().map(|f| (usize::from(f.range.start()), usize::from(f.range.end()))).collect();
        let want: BTreeMap<(usize, usize), &str> = p.folds.iter().filter(|f| f.file == fi).map(|f| (f.range, f.kind)).collect();
        if got.len() != folds.len() {
            v.push(("fold:duplicate".into(), format!("{}: duplicate folding ranges", path)));
        }
        for (r, k) in &want {
            ctx.feature(&format!("fold:{}", k));
            if !got.contains(r) {
                let near = got.iter().find(|g| g.0 == r.0);
                v.push((
                    format!("fold:{}:{}", k, if near.is_some() { "wrong-end" } else { "missing" }),
                    format!("{}: {} statement {}..{} has no folding range with these bounds (same start: {:?})", path, k, r.0, r.1, near),
                ));
            }
        }
        for g in &got {
            if !want.contains_key(g) && !want.keys().any(|w| w.0 == g.0) {
                v.push(("fold:extra".into(), format!("{}: folding range {}..{} corresponds to no class/def/defset/foreach/if/let/multiclass statement", path, g.0, g.1)));
            }
        }
        let gv: Vec<_> = got.iter().collect();
        for i in 0..gv.len() {
            for j in i + 1..gv.len() {
                let (x, y) = (gv[i], gv[j]);
                let disjoint = x.1 <= y.0 || y.1 <= x.0;
                let nested = (x.0 <= y.0 && y.1 <= x.1) || (y.0 <= x.0 && x.1 <= y.1);
                if !disjoint && !nested {
                    v.push(("fold:not-laminar".into(), format!("{}: folding ranges {:?} and {:?} cross", path, x, y)));
                }
            }
        }
    }
}

fn diff_outline(got: &[OutlineNode], want: &[OutlineNode], parent: &str) -> Option<(String, String)> {
    for i in 0..got.len().max(want.len()) {
        match (got.get(i), want.get(i)) {
            (Some(g), Some(w)) => {
                if g.kind != w.kind || g.name != w.name {
                    // is the expected node there at all (order problem) or missing?
                    let present = got.iter().any(|x| x.kind == w.kind && x.name == w.name);
                    return Some((
                        format!("{}:{}:{}", parent, w.kind, if present { "order" } else { "missing-or-renamed" }),
                        format!("position {} under {}: got {} '{}', expected {} '{}'", i, parent, g.kind, g.name, w.kind, w.name),
                    ));
                }
                if g.range != w.range {
                    return Some((format!("{}:{}:range", parent, w.kind), format!("{} '{}': range {:?}, expected {:?}", w.kind, w.name, g.range, w.range)));
                }
                if let Some(d) = diff_outline(&g.children, &w.children, w.kind) {
                    return Some(d);
                }
            }
            (Some(g), None) => return Some((format!("{}:extra:{}", parent, g.kind), format!("unexpected {} '{}' under {}", g.kind, g.name, parent))),
            (None, Some(w)) => return Some((format!("{}:{}:missing-or-renamed", parent, w.kind), format!("{} '{}' missing under {}", w.kind, w.name, parent))),
            (None, None) => {}
        }
    }
    None
}

// ------------------------------------------------------------------------------------------------ C19
fn hover_hints(p: &Program, l: &L, rng: &mut Rng, v: &mut Vec<(String, String)>, ctx: &mut Ctx) {
    let a = l.l.analysis();
    let mut probes: Vec<(usize, usize, usize, bool)> = Vec::new(); // (file, offset, decl, is_use)
    for (di, d) in p.decls.iter().enumerate() {
        probes.push((d.file, d.range.0, di, false));
    }
    for u in &p.uses {
        if !u.optional {
            probes.push((u.file, (u.range.0 + u.range.1) / 2, u.decl, true));
        }
    }
    for (file, off, di, is_use) in probes {
        let d = &p.decls[di];
        let Some(fid) = l.ids[file] else { continue };
        // hover describes the symbol go-to-definition jumps to: only demanded where resolution itself is right
        let pos = FilePosition::new(fid, TextSize::from(off as u32));
        if a.goto_definition(pos) != fr(l, d.file, d.range) {
            continue;
        }
        ctx.eval();
        ctx.feature(&format!("hover:{}", d.kind.name()));
        let Some(h) = a.hover(pos) else {
            v.push((format!("hover:none:{}", d.kind.name()), format!("no hover on resolved {} '{}'", d.kind.name(), d.name)));
            continue;
        };
        for (k, part) in d.sig_parts.iter().enumerate() {
            if !h.signature.contains(part.as_str()) {
                v.push((
                    format!("hover:signature:{}:part{}", d.kind.name(), k),
                    format!("hover signature {:?} of {} '{}' lacks {:?}", h.signature, d.kind.name(), d.name, part),
                ));
                break;
            }
        }
        if d.doc_checked {
            let want = d.doc.as_ref().map(|ls| ls.join("\n"));
            if want.is_some() {
                ctx.feature("hover:with-doc");
                if is_use {
                    ctx.feature("hover:doc-via-use");
                }
            }
            if h.document != want {
                let kind = match (&want, &h.document) {
                    (None, Some(_)) => "spurious",
                    (Some(_), None) => "missing",
                    _ => "different",
                };
                let detail = match (&want, &h.document) {
                    (_, Some(g)) if g.contains("trailing remark") => ":takes-trailing-comment-of-previous-line",
                    (_, Some(g)) if g.contains("detached remark") => ":takes-detached-comment",
                    (_, Some(g)) if g.contains("not adjacent") => ":takes-comment-above-block-comment",
                    _ => "",
                };
                v.push((format!("hover:doc:{}:{}{}", d.kind.name(), kind, detail), format!("{} '{}': document {:?}, expected {:?}", d.kind.name(), d.name, h.document, want)));
            }
        }
    }
    // inlay hints
    for (fi, (path, text)) in p.files.iter().enumerate() {
        let Some(fid) = l.ids[fi] else { continue };
        let want: BTreeMap<(usize, String), &str> = p.hints.iter().filter(|h| h.file == fi).map(|h| ((h.pos, h.label.clone()), h.kind)).collect();
        let ignorable: Vec<(usize, usize)> = p.let_item_names.iter().filter(|x| x.0 == fi).map(|x| x.1).collect();
        let len = text.len();
        let mut ranges: Vec<(usize, usize)> = vec![(0, len)];
        for _ in 0..ctx.tier.pick(12, 20) {
            let mut x = rng.below(len + 1);
            let mut y = rng.below(len + 1);
            while !text.is_char_boundary(x) {
                x -= 1;
            }
            while !text.is_char_boundary(y) {
                y -= 1;
            }
            ranges.push((x.min(y), x.max(y)));
        }
        // ranges that cut through class references, and empty ranges
        for h in p.hints.iter().filter(|h| h.file == fi).take(6) {
            ranges.push((h.pos, h.pos));
            ranges.push((h.pos.saturating_sub(3), h.pos + 1));
            ranges.push((h.pos + 1, (h.pos + 30).min(len)));
        }
        for (ri, (x, y)) in ranges.iter().enumerate() {
            ctx.eval();
            let mut y2 = *y;
            while !text.is_char_boundary(y2) {
                y2 -= 1;
            }
            let mut x2 = (*x).min(y2);
            while !text.is_char_boundary(x2) {
                x2 -= 1;
            }
            let got = a.inlay_hint(FileRange::new(fid, TextRange::new((x2 as u32).into(), (y2 as u32).into()))).unwrap_or_default();
            let got: BTreeSet<(usize, String)> = got.iter().map(|h| (usize::from(h.position), h.label.clone())).collect();
            if ri == 0 {
                ctx.feature("hints:full-range");
                for ((pos, label), kind) in &want {
                    ctx.feature(&format!("hint:{}", kind));
                    if !got.contains(&(*pos, label.clone())) {
                        let at = got.iter().find(|g| g.0 == *pos);
                        v.push((
                            format!("hint:{}:{}", kind, if at.is_some() { "wrong-label" } else { "missing" }),
                            format!("{}: expected hint {:?} at {} (got there: {:?})", path, label, pos, at),
                        ));
                    }
                }
                for g in &got {
                    if !want.contains_key(g) && !ignorable.iter().any(|r| g.0 >= r.0 && g.0 <= r.1) {
                        v.push(("hint:extra".into(), format!("{}: unexpected hint {:?} at {}", path, g.1, g.0)));
                    }
                }
            } else {
                ctx.feature(if x2 == y2 { "hints:empty-range" } else { "hints:sub-range" });
                for g in &got {
                    if g.0 < x2 || g.0 > y2 {
                        v.push(("hint:outside-requested-range".into(), format!("{}: hint {:?} at {} returned for range {}..{}", path, g.1, g.0, x2, y2)));
                        break;
                    }
                    if !want.contains_key(g) && !ignorable.iter().any(|r| g.0 >= r.0 && g.0 <= r.1) {
                        v.push(("hint:extra".into(), format!("{}: unexpected hint {:?} at {} (range {}..{})", path, g.1, g.0, x2, y2)));
                        break;
                    }
                }
            }
        }
    }
}

// ------------------------------------------------------------------------------------------------ C13
/// Directed workload for the subclass relation behind type compatibility: a random multiple-inheritance
/// hierarchy (no diamonds), defs with 1-3 parents, and for EVERY (def, ancestor) pair a field of the ancestor's
/// type initialised with the def and a template argument of that type bound to it - all well-formed, so no
/// diagnostic is expected; every (def, non-ancestor) pair is a type-incompatible-initialiser fault site.
fn hierarchy_program(rng: &mut Rng) -> Program {
    let nc = rng.range(4, 9);
    let mut anc: Vec<Vec<usize>> = Vec::new(); // transitive, including itself
    let mut text = String::new();
    let pick_parents = |rng: &mut Rng, upto: usize, anc: &Vec<Vec<usize>>, max: usize| -> (Vec<usize>, Vec<usize>) {
        let mut chosen: Vec<usize> = Vec::new();
        let mut all: Vec<usize> = Vec::new();
        let want = rng.below(max + 1);
        for _ in 0..want {
            let cands: Vec<usize> = (0..upto).filter(|c| !anc[*c].iter().any(|a| all.contains(a))).collect();
            if cands.is_empty() {
                break;
            }
            let c = cands[rng.below(cands.len())];
            chosen.push(c);
            all.extend(anc[c].iter().cloned());
        }
        (chosen, all)
    };
    for i in 0..nc {
        let (par, mut all) = pick_parents(rng, i, &anc, 3);
        text.push_str(&format!("class H{}", i));
        for (k, c) in par.iter().enumerate() {
            text.push_str(&format!("{}H{}", if k == 0 { " : " } else { ", " }, c));
        }
        text.push_str(";\n");
        all.push(i);
        anc.push(all);
    }
    let nd = rng.range(1, 4);
    let mut danc: Vec<Vec<usize>> = Vec::new();
    for d in 0..nd {
        let (mut par, mut all) = pick_parents(rng, nc, &anc, 3);
        if par.is_empty() {
            par.push(nc - 1);
            all = anc[nc - 1].clone();
        }
        text.push_str(&format!("def D{}", d));
        for (k, c) in par.iter().enumerate() {
            text.push_str(&format!("{}H{}", if k == 0 { " : " } else { ", " }, c));
        }
        text.push_str(";\n");
        danc.push(all);
    }
    let mut p = Program::default();
    let mut sites: Vec<((usize, usize), usize)> = Vec::new(); // (span of the type name, def)
    text.push_str("class U {\n");
    let mut f = 0;
    for (d, all) in danc.iter().enumerate() {
        for a in all {
            text.push_str("  ");
            let s = text.len();
            text.push_str(&format!("H{}", a));
            sites.push(((s, text.len()), d));
            text.push_str(&format!(" f{} = D{};\n", f, d));
            f += 1;
        }
    }
    text.push_str("}\ndef u : U;\n");
    for (d, all) in danc.iter().enumerate() {
        for a in all {
            text.push_str(&format!("class T{}<H{} a> {{ H{} g = a; }}\ndef t{} : T{}<D{}>;\n", f, a, a, f, f, d));
            f += 1;
        }
    }
    for ((s, e), d) in sites {
        let non: Vec<usize> = (0..nc).filter(|c| !danc[d].contains(c)).collect();
        if non.is_empty() {
            continue;
        }
        let c = non[rng.below(non.len())];
        let line_end = text[e..].find('\n').map(|k| e + k).unwrap_or(text.len());
        p.fault_sites.push(FaultSite { file: 0, span: (s, e), replacement: format!("H{}", c), class: "type-incompatible-initialiser", expect: (s, line_end) });
    }
    if danc.iter().any(|all| all.len() >= 4) {
        p.features.push("hierarchy:def-with-4+-ancestors");
    }
    p.files = vec![("root.td".to_string(), text)];
    p.root = 0;
    p.outline = vec![vec![]];
    p
}
fn clean_diagnostics(p: &Program, l: &L, v: &mut Vec<(String, String)>, ctx: &mut Ctx) {
    ctx.eval();
    ctx.feature("clean_programs");
    let d = l.l.analysis().diagnostics();
    for (fid, ds) in d {
        let path = l.l.fs.path_of(fid).unwrap_or_default();
        for x in ds {
            let text = p.files.iter().find(|q| q.0 == path).map(|q| q.1.as_str()).unwrap_or("");
            let (s, e) = (usize::from(x.location.range.start()).min(text.len()), usize::from(x.location.range.end()).min(text.len()));
            v.push((format!("diagnostic-on-well-formed-program:{}", squash(&x.message)), format!("{}: {:?} at {}..{} ({:?})", path, x.message, s, e, text.get(s..e).unwrap_or(""))));
        }
    }
}

impl Check for GCheck {
    fn id(&self) -> &'static str {
        match self.mode {
            GMode::Resolution => "C05",
            GMode::Diagnostics => "C13",
            GMode::Outline => "C18",
            GMode::Hover => "C19",
        }
    }
    fn units(&self, tier: Tier, _seed: u64) -> u64 {
        tier.pick(96, 960)
    }
    fn run_unit(&self, unit: u64, ctx: &mut Ctx) {
        let n = match self.mode {
            GMode::Diagnostics => ctx.tier.pick(12, 40),
            _ => ctx.tier.pick(40, 160),
        };
        for k in 0..n {
            self.program_case(unit, k, ctx);
        }
        if self.mode == GMode::Diagnostics {
            for k in 0..ctx.tier.pick(4, 12) {
                let mut rng = Rng::derive(ctx.seed, 0x6013, unit * 100_000 + k);
                let p = hierarchy_program(&mut rng);
                ctx.feature("hierarchy_programs");
                self.check_program(&p, &mut rng, ctx, true);
            }
        }
    }
    fn replay(&self, case: &Value, ctx: &mut Ctx) {
        // the metadata of a generated program is not stored in the replay file; the replay re-runs the oracles
        // that need none: diagnostics on the recorded workspace (C13) and a totality sweep for the others
        let Some(w) = ws::Workspace::from_json(case) else { return };
        ctx.eval();
        let l = ws::load(&w);
        let d = l.analysis().diagnostics();
        if self.mode == GMode::Diagnostics {
            if let Some(f) = case.get("fault") {
                let file = f["file"].as_str().unwrap_or("");
                let (s, e) = (f["expect"][0].as_u64().unwrap_or(0) as usize, f["expect"][1].as_u64().unwrap_or(0) as usize);
                let covered = l.fs.id_of(file).and_then(|id| d.get(&id)).map(|ds| ds.iter().any(|x| usize::from(x.location.range.start()) <= e && usize::from(x.location.range.end()) >= s)).unwrap_or(false);
                if !covered {
                    ctx.violation(format!("fault-undetected:{}", f["class"].as_str().unwrap_or("?")), "replayed: no diagnostic covers the seeded site".to_string(), case.clone());
                }
            } else if d.values().any(|v| !v.is_empty()) {
                ctx.violation("diagnostic-on-well-formed-program:replayed", format!("{:?}", d.values().flatten().map(|x| x.message.clone()).collect::<Vec<_>>()), case.clone());
            }
        }
    }
    fn rule(&self) -> String {
        let gen = "programs from G-prog (gprog/): multi-file workspaces (root + 0-2 included files, optionally in a sub-directory) of classes with typed template arguments and defaults, typed fields, single/multiple inheritance with positional arguments, field overrides, defs (named, anonymous, pasted with loop variables), defvar (global, block-local, record-local, shadowing), foreach, if/else, top-level let, defset, multiclass (with and without template arguments, with parents) and defm, assert, and values built from in-scope names, literals and the typed bang operators incl. the variable-binding !foreach/!filter/!foldl; every program is audited by llvm-tblgen 14 (clean => accepted, with a seeded fault or dead use => rejected, else discarded and counted)";
        match self.mode {
            GMode::Resolution => format!("{}. Oracle: for every use the generator recorded, go-to-definition at its first, middle and last byte is exactly (file, identifier range) of the declaration the language rules give; find-references on every declaration is exactly its recorded uses (field-override names optional); every third program carries one dead use (a name used after its foreach/if/let/record/class/multiclass ended): it must not resolve to the ended declaration and a diagnostic must cover it. non-trivial = every generated program; distinct by digest of all file texts", gen),
            GMode::Diagnostics => format!("{}. Oracle: a clean program has no diagnostic in any file; for each fault class (undefined class / multiclass / include, missing / surplus template argument, type-incompatible initialiser / let / argument, operator arity, deleted or inserted token in the root or an included file) one or two eligible sites per program are mutated (classes visited round-robin): some diagnostic in the site's file must overlap the site span, and included files analysed wholly before the fault stay clean. Directed family (4/12 per unit): random multiple-inheritance hierarchies of 4-9 classes without diamonds and 1-4 defs with 1-3 parents, where for every (def, ancestor) pair a field and a template argument of the ancestor's type is bound to the def (clean: no diagnostic) and the type name replaced by a non-ancestor is a type-incompatible-initialiser fault. non-trivial = each clean program and each mutant; distinct by digest", gen),
            GMode::Outline => format!("{} (pasted def names off). Oracle: document_symbol(file) equals the expected outline tree (order, kind, name, identifier range, one child per template argument and per declared/overridden field, defs of a defset as its children) for every file; folding_range(file) is one-to-one with the class/def/defset/foreach/if/let/multiclass statements with exact start and end, and pairwise nested or disjoint. non-trivial = every program; distinct by digest", gen),
            GMode::Hover => format!("{} (doc comments on). Oracle: hover on every declaration and every use that resolves correctly shows the kind keyword, name and declared type of that declaration and exactly the contiguous // lines above it (none if separated by a blank line or a block comment; a trailing comment on the previous statement's line is not one); inlay_hint over the whole file equals the expected hints (param: at the first byte of each positional argument, :type right after each overridden field name); over 12-20 random sub-ranges, ranges cutting through class references and empty ranges every returned hint is an expected one and lies inside the range. non-trivial = every program; distinct by digest", gen),
        }
    }
    fn floors(&self, tier: Tier) -> Vec<(&'static str, u64)> {
        let n = tier.pick(900, 30_000);
        let mut v = vec![("programs", n), ("programs_with_includes", n / 4), ("gen:stmt:multiclass", n / 10), ("gen:multiclass:no-template-args", n / 40), ("gen:stmt:defset", n / 20), ("gen:stmt:if", n / 20), ("gen:stmt:let", n / 20), ("gen:stmt:foreach", n / 20)];
        match self.mode {
            GMode::Resolution => {
                v.extend([("use:parent-class", n), ("use:field-init", n), ("use:template-arg-value", n / 2), ("use:bang-body", n / 4), ("use:def-name-paste", n / 20), ("use:if-condition", n / 40), ("use:foreach-range", n / 100), ("use:cross-file", n / 4), ("dead-use:if-then-defvar", n / 100), ("dead-use:foreach-iterator", n / 100), ("decl:bang-var", n / 4), ("gen:scope:shadowing-defvar", n / 40)]);
            }
            GMode::Diagnostics => {
                v = vec![("clean_programs", tier.pick(600, 15_000)), ("hierarchy_programs", tier.pick(300, 10_000)), ("gen:hierarchy:def-with-4+-ancestors", tier.pick(50, 1000)), ("fault:undefined-class", 100), ("fault:undefined-multiclass", 30), ("fault:undefined-identifier", 100), ("fault:undefined-include", 50), ("fault:missing-template-arg", 50), ("fault:surplus-template-arg", 100), ("fault:type-incompatible-initialiser", 100), ("fault:type-incompatible-let", 50), ("fault:type-incompatible-argument", 100), ("fault:operator-arity", 50), ("fault:operator-arity-surplus", 30), ("fault:syntax-delete-token", 100), ("fault:syntax-insert-token", 100), ("fault_in_included_file", 50)];
            }
            GMode::Outline => {
                v.extend([("outline:Class", n), ("outline:Def", n), ("outline:Defset", n / 20), ("outline:Multiclass", n / 10), ("outline:defset-with-children", n / 20), ("gen:defset:def-under-if", n / 100), ("gen:defset:def-under-let", n / 100), ("fold:class", n), ("fold:if", n / 20), ("fold:let", n / 20)]);
            }
            GMode::Hover => {
                v.extend([("hover:class", n), ("hover:field", n), ("hover:with-doc", n), ("hover:doc-via-use", n / 4), ("gen:doc:trailing-comment-on-previous-line", n / 10), ("gen:doc:blank-line-separated", n / 10), ("hint:template-arg", n), ("hint:field-let", n / 4), ("hints:empty-range", n), ("hints:sub-range", n)]);
            }
        }
        v
    }
    fn assumptions(&self) -> Vec<String> {
        vec![
            "the generator's symbol table implements the language's scoping and typing rules; llvm-tblgen 14 audits every sample (clean accepted, faulty rejected) on the fragment it supports".into(),
            "not generated because ambiguous under the statement: a parent's template argument used in an heir, a use of a field after a let override of it, named template arguments, and the cross-kind shadowings on which llvm-tblgen 14 (fields and template arguments before block variables) and \"the innermost declaration wins\" disagree - generated are: defvar over defvar, a field / template argument over a GLOBAL defvar, a bang-operator variable over a defvar".into(),
        ]
    }
    fn unit_cpu_budget_s(&self) -> f64 {
        300.0
    }
    fn technique(&self) -> &'static str {
        match self.mode {
            GMode::Resolution => "reference-model monitor: go-to-definition / references compared with the use->declaration map a scope-tracking generator knows by construction (llvm-tblgen-audited)",
            GMode::Diagnostics => "fault-seeding monitor: diagnostics of clean and single-fault generated programs (llvm-tblgen-audited)",
            GMode::Outline => "reference-model monitor: document symbols and folding ranges compared with the outline known by construction",
            GMode::Hover => "reference-model monitor: hover and inlay hints compared with declarations, doc comments and argument bindings known by construction",
        }
    }
}
