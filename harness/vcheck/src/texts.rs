//! Text-level workload material: the token-class alphabet (G-tok), hand-written snippets covering every
//! statement kind, the vendored LLVM corpus (G-corpus), a splitter and the mutators (G-mut).
use crate::core::Rng;
use std::sync::OnceLock;

/// G-tok: representative lexemes of every token class, valid and invalid.
pub const LEXEMES: &[&str] = &[
    // punctuation
    "-", "+", "[", "]", "{", "}", "(", ")", "<", ">", ":", ";", ",", ".", "=", "?", "#", "...", "..",
    // keywords
    "class", "def", "let", "in", "include", "defm", "multiclass", "foreach", "if", "then", "else", "defvar",
    "defset", "assert", "dump", "field", "int", "bit", "bits", "list", "string", "dag", "code", "true", "false",
    // identifiers
    "a", "_x", "Foo", "4foo", "NAME",
    // integers
    "0", "42", "-1", "+7", "0x1F", "0b101", "0x", "0b", "9223372036854775807", "18446744073709551616",
    "-9223372036854775809",
    // strings
    "\"s\"", "\"a\\\\\"", "\"a\\\"b\"", "\"\\n\"", "\"unterminated", "\"\u{e9}\"",
    // code fragments
    "[{ c }]", "[{ unterminated", "[{}]",
    // variable names
    "$v", "$", "$1",
    // bang operators
    "!add", "!cond", "!foreach", "!if", "!cast", "!foo", "!", "!logtwo",
    // preprocessor directives
    "#define", "#define M", "#ifdef M", "#ifdef", "#ifndef M", "#ifndef", "#else", "#endif", "#define N",
    // comments
    "// c\n", "//", "/* c */", "/* /* n */ */", "/* unterminated", "/*/",
    // whitespace kinds
    " ", "\t", "\n", "\r\n", "\r", "\u{a0}",
    // other characters
    "\u{e9}", "\u{20ac}", "\u{1d11e}", "@", "\\", "`", "\u{2028}", "\u{c}",
    // characters that tools like to normalise away: byte order mark, NUL, zero-width space, NEL, soft hyphen
    "\u{feff}", "\0", "\u{200b}", "\u{85}", "\u{ad}",
    // letters whose case mapping changes the byte length (dotted capital I, sharp s, Kelvin sign)
    "\u{130}", "\u{df}", "\u{212a}",
];

/// Hand-written snippets: together they use every statement, body item, type and value form of syntax.md.
pub const SNIPPETS: &[&str] = &[
    "include \"foo.td\"\n",
    "class Foo<int A, int B = 1>: Bar<A, 2>;\n",
    "class Foo<int A> {\n  int B;\n  int C = A;\n  let D = A;\n  field bits<4> E = {0, 1, 0, 1};\n  code F = [{ return 1; }];\n  defvar g = !add(A, 1);\n  assert !eq(A, 1), \"msg\";\n  dump \"x\";\n}\n",
    "def Foo : Bar;\n",
    "def foo {}\n",
    "def : Bar<1>;\n",
    "def \"name\" # NAME : Bar;\n",
    "let A = 1, B<1...3> = 0b101 in { class Foo; }\n",
    "let x = 1 in def D1 : C;\n",
    "multiclass foo {\n  def _foo1;\n  def _foo2;\n}\n",
    "multiclass M<int a> : N<a> {\n  def NAME # _x : C<a>;\n  defm _y : N<a>;\n  foreach i = [1, 2] in def _z # i;\n  let f = 1 in def _w;\n  if a then { def _t; } else { def _e; }\n  assert a, \"m\";\n  dump a;\n}\n",
    "defm foo : bar;\n",
    "defm : bar<1, \"s\">, baz;\n",
    "defset list<Base> BaseList = {\n  def Foo0 : Base<0>;\n  def Foo1 : Base<1>;\n}\n",
    "defvar i = 0;\n",
    "dump \"foo\";\n",
    "foreach i = [0, 1] in {\n  def Foo # i : Base<i>;\n}\n",
    "foreach i = {0, 1} in def F # i;\n",
    "foreach i = 0...3 in def G # i;\n",
    "foreach i = 0-3 in def H # i;\n",
    "if true then { class Foo; }\n",
    "if !eq(x, 1) then def A; else def B;\n",
    "assert hoge, \"fuga\";\n",
    "class Foo<bit A, int B, string C, dag D, bits<32> E, list<int> F, Bar G>;\n",
    "class Foo<string A = \"hoge\" # \"fuga\">;\n",
    "defvar a = A#B;\n",
    "class Foo<int A = Hoge.Fuga, bits<2> B = Hoge{0...1}, list<int> C = Hoge[0...1]>;\n",
    "class Foo<int A = 1, string B = \"hoge\", bit D = false, int E = ?, bits<2> F = {0, 1}, list<int> G = [1, 2], dag H = (add A:$hoge), int I = A, int J = !add(A, B), int K = !cond(false: 1, true: 2)> {\n  code C = [{ true }];\n}\n",
    "defvar A = [[1], [1,], [1,2]];\n",
    "defvar d = (op a, b:$x, $y);\n",
    "defvar l = !foreach(x, [1, 2], !add(x, 1));\n",
    "defvar c = !cast<Foo>(\"a\" # b);\n",
    "defvar v = Foo<1, \"x\" = 2>.field[0]{1, 2-3};\n",
    "defvar s = L[1...2, 3];\n",
    "defvar e = []<int>;\n",
    "defvar tl = [1, 2]<int>;\nclass TL<list<string> s = [\"a\"]<string>> { list<list<int>> ll = [[1]<int>, []<int>]<list<int>>; }\n",
    "class A : B<x = 1>;\n",
    "class C { let f{3-0} = 1; let g{1, 2} = 0b11; }\n",
    "#define M\n#ifdef M\nclass InM;\n#else\nclass NotM;\n#endif\n",
    "#ifndef N\ndef in_n;\n#ifdef Q\ndef q [ (\n#endif\n#endif\n",
    "/* block */ class X; // line\n",
    "// doc line 1\n// doc line 2\nclass Documented;\n",
];

pub struct CorpusFile {
    pub name: String,
    pub text: String,
}
pub fn corpus() -> &'static Vec<CorpusFile> {
    static C: OnceLock<Vec<CorpusFile>> = OnceLock::new();
    C.get_or_init(|| {
        let mut v = Vec::new();
        let dir = format!("{}/corpus/llvm14", crate::core::VERIF_ROOT);
        let mut names: Vec<_> = std::fs::read_dir(&dir)
            .map(|rd| rd.flatten().map(|e| e.file_name().to_string_lossy().to_string()).collect())
            .unwrap_or_default();
        names.sort();
        for n in names {
            if let Ok(text) = std::fs::read_to_string(format!("{}/{}", dir, n)) {
                v.push(CorpusFile { name: n, text });
            }
        }
        v
    })
}

/// Top-level chunks of corpus files: maximal runs of lines that start at column 0 with a statement keyword
/// and end before the next such line (good enough as mutation bases; not an oracle).
pub fn corpus_chunks() -> &'static Vec<String> {
    static C: OnceLock<Vec<String>> = OnceLock::new();
    C.get_or_init(|| {
        let mut out = Vec::new();
        for f in corpus() {
            let mut cur = String::new();
            for line in f.text.split_inclusive('\n') {
                let starts = ["class ", "def ", "let ", "multiclass ", "defm ", "foreach ", "defvar ", "defset ", "include ", "if ", "assert "]
                    .iter()
                    .any(|k| line.starts_with(k));
                if starts && !cur.trim().is_empty() {
                    if cur.len() < 1500 {
                        out.push(std::mem::take(&mut cur));
                    } else {
                        cur.clear();
                    }
                }
                cur.push_str(line);
            }
            if !cur.trim().is_empty() && cur.len() < 1500 {
                out.push(cur);
            }
        }
        out
    })
}

#[derive(Clone, Copy, PartialEq, Eq, Debug)]
pub enum PieceKind {
    Word,
    Number,
    Str,
    Space,
    Comment,
    Punct,
    Other,
}

/// Independent rough splitter into pieces (byte ranges); used only to pick mutation points.
pub fn split_pieces(text: &str) -> Vec<(usize, usize, PieceKind)> {
    let b = text.as_bytes();
    let mut out = Vec::new();
    let mut i = 0;
    while i < b.len() {
        let c = b[i];
        let start = i;
        let kind;
        if c.is_ascii_alphabetic() || c == b'_' {
            while i < b.len() && (b[i].is_ascii_alphanumeric() || b[i] == b'_') {
                i += 1;
            }
            kind = PieceKind::Word;
        } else if c.is_ascii_digit() {
            while i < b.len() && (b[i].is_ascii_alphanumeric() || b[i] == b'_') {
                i += 1;
            }
            kind = PieceKind::Number;
        } else if c == b'"' {
            i += 1;
            while i < b.len() && b[i] != b'"' && b[i] != b'\n' {
                if b[i] == b'\\' && i + 1 < b.len() {
                    i += 1;
                }
                i += 1;
            }
            if i < b.len() && b[i] == b'"' {
                i += 1;
            }
            kind = PieceKind::Str;
        } else if c.is_ascii_whitespace() {
            while i < b.len() && b[i].is_ascii_whitespace() {
                i += 1;
            }
            kind = PieceKind::Space;
        } else if c == b'/' && i + 1 < b.len() && b[i + 1] == b'/' {
            while i < b.len() && b[i] != b'\n' {
                i += 1;
            }
            kind = PieceKind::Comment;
        } else if c == b'/' && i + 1 < b.len() && b[i + 1] == b'*' {
            i += 2;
            while i + 1 < b.len() && !(b[i] == b'*' && b[i + 1] == b'/') {
                i += 1;
            }
            i = (i + 2).min(b.len());
            kind = PieceKind::Comment;
        } else if c < 0x80 {
            // "..." as one piece, "!op", "$var", "#directive"
            if c == b'.' && text[i..].starts_with("...") {
                i += 3;
            } else if (c == b'!' || c == b'$' || c == b'#') && i + 1 < b.len() && b[i + 1].is_ascii_alphabetic() {
                i += 1;
                while i < b.len() && (b[i].is_ascii_alphanumeric() || b[i] == b'_') {
                    i += 1;
                }
            } else {
                i += 1;
            }
            kind = PieceKind::Punct;
        } else {
            let ch = text[i..].chars().next().unwrap();
            i += ch.len_utf8();
            kind = PieceKind::Other;
        }
        out.push((start, i, kind));
    }
    out
}

pub const UNTERMINATED: &[&str] = &["\"abc", "[{ abc", "/* abc", "#ifdef M\n", "#ifndef M\n", "#ifdef M\n#else\n", "#ifdef\n", "#define\n", "( [ {", "!cond(", "<"];
pub const NON_ASCII: &[&str] = &["\u{e9}", "\u{20ac}", "\u{1d11e}", "\u{a0}", "\u{2028}", "\u{3042}\u{3044}", "\u{feff}", "\u{200b}", "\u{85}", "\0", "\u{130}", "\u{df}x", "\u{212a}"];

fn non_space_indices(pieces: &[(usize, usize, PieceKind)]) -> Vec<usize> {
    pieces.iter().enumerate().filter(|(_, p)| p.2 != PieceKind::Space).map(|(i, _)| i).collect()
}

/// One random mutation of `text`; returns the mutant and a short tag naming the operator used.
pub fn mutate(text: &str, rng: &mut Rng) -> (String, &'static str) {
    let pieces = split_pieces(text);
    if pieces.is_empty() {
        return (LEXEMES[rng.below(LEXEMES.len())].to_string(), "from-empty");
    }
    let ns = non_space_indices(&pieces);
    let pick_ns = |rng: &mut Rng| -> usize {
        if ns.is_empty() {
            0
        } else {
            ns[rng.below(ns.len())]
        }
    };
    let piece_text = |i: usize| &text[pieces[i].0..pieces[i].1];
    match rng.below(14) {
        0 => {
            // prefix at a piece boundary
            let i = rng.below(pieces.len() + 1);
            let end = if i == pieces.len() { text.len() } else { pieces[i].0 };
            (text[..end].to_string(), "prefix-token")
        }
        1 => {
            // prefix at a character boundary
            let mut e = rng.below(text.len() + 1);
            while !text.is_char_boundary(e) {
                e -= 1;
            }
            (text[..e].to_string(), "prefix-char")
        }
        2 => {
            let i = pick_ns(rng);
            (format!("{}{}", &text[..pieces[i].0], &text[pieces[i].1..]), "delete")
        }
        3 => {
            let i = pick_ns(rng);
            let j = pick_ns(rng);
            let (a, b) = (i.min(j), i.max(j));
            if a == b {
                (format!("{}{}", &text[..pieces[a].0], &text[pieces[a].1..]), "delete")
            } else {
                (format!("{}{}{}", &text[..pieces[a].0], &text[pieces[a].1..pieces[b].0], &text[pieces[b].1..]), "delete2")
            }
        }
        4 => {
            let i = rng.below(pieces.len());
            let lx = LEXEMES[rng.below(LEXEMES.len())];
            (format!("{} {} {}", &text[..pieces[i].0], lx, &text[pieces[i].0..]), "insert")
        }
        5 => {
            let i = rng.below(pieces.len());
            let lx = LEXEMES[rng.below(LEXEMES.len())];
            (format!("{}{}{}", &text[..pieces[i].0], lx, &text[pieces[i].0..]), "insert-glued")
        }
        6 => {
            let i = pick_ns(rng);
            (format!("{}{} {}", &text[..pieces[i].1], piece_text(i), &text[pieces[i].1..]), "duplicate")
        }
        7 => {
            if ns.len() < 2 {
                return (text.to_string(), "identity");
            }
            let k = rng.below(ns.len() - 1);
            let (i, j) = (ns[k], ns[k + 1]);
            (
                format!("{}{}{}{}{}", &text[..pieces[i].0], piece_text(j), &text[pieces[i].1..pieces[j].0], piece_text(i), &text[pieces[j].1..]),
                "transpose",
            )
        }
        8 => {
            let i = pick_ns(rng);
            let lx = LEXEMES[rng.below(LEXEMES.len())];
            (format!("{}{}{}", &text[..pieces[i].0], lx, &text[pieces[i].1..]), "replace")
        }
        9 => {
            // byte noise (kept valid UTF-8 by lossy conversion)
            let mut bytes = text.as_bytes().to_vec();
            let n = 1 + rng.below(3);
            for _ in 0..n {
                let k = rng.below(bytes.len());
                bytes[k] = (rng.next() & 0xff) as u8;
            }
            (String::from_utf8_lossy(&bytes).to_string(), "byte-noise")
        }
        10 => {
            let i = rng.below(pieces.len());
            let na = NON_ASCII[rng.below(NON_ASCII.len())];
            let mut at = pieces[i].0;
            if pieces[i].2 == PieceKind::Comment || pieces[i].2 == PieceKind::Str {
                at = pieces[i].0 + (pieces[i].1 - pieces[i].0) / 2;
                while !text.is_char_boundary(at) {
                    at -= 1;
                }
            }
            (format!("{}{}{}", &text[..at], na, &text[at..]), "non-ascii")
        }
        11 => {
            let to = if rng.chance(1, 2) { "\r\n" } else { "\r" };
            (text.replace('\n', to), "eol-convert")
        }
        12 => {
            let i = rng.below(pieces.len());
            let u = UNTERMINATED[rng.below(UNTERMINATED.len())];
            (format!("{}{}{}", &text[..pieces[i].0], u, &text[pieces[i].0..]), "unterminated-splice")
        }
        _ => {
            // wrap a run of pieces in a disabled preprocessor region
            let i = rng.below(pieces.len());
            let j = rng.range(i, pieces.len() - 1);
            let (open, close) = match rng.below(4) {
                0 => ("\n#ifdef UNDEFINED_MACRO\n", "\n#endif\n"),
                1 => ("\n#ifndef UNDEFINED_MACRO\n", "\n#else\n skipped [{ ( \" \n#endif\n"),
                2 => ("\n#ifdef UNDEFINED_MACRO\n junk \" [ \n#else\n", "\n#endif\n"),
                _ => ("\n#define DM\n#ifdef DM\n", "\n#else\n#ifdef X\n inner\n#endif\n skipped\n#endif\n"),
            };
            (
                format!("{}{}{}{}{}", &text[..pieces[i].0], open, &text[pieces[i].0..pieces[j].1], close, &text[pieces[j].1..]),
                "pp-wrap",
            )
        }
    }
}

/// A random base program: a few snippets / corpus chunks concatenated.
pub fn base_program(rng: &mut Rng) -> String {
    let n = 1 + rng.below(4);
    let mut s = String::new();
    let chunks = corpus_chunks();
    for _ in 0..n {
        if !chunks.is_empty() && rng.chance(1, 2) {
            s.push_str(&chunks[rng.below(chunks.len())]);
        } else {
            s.push_str(SNIPPETS[rng.below(SNIPPETS.len())]);
        }
    }
    s
}

/// Nesting towers up to the documented depth bound (256).
pub fn tower(kind: usize, depth: usize) -> String {
    match kind % 8 {
        0 => format!("defvar x = {}1{};", "[".repeat(depth), "]".repeat(depth)),
        1 => format!("defvar x = {}1{};", "!if(".repeat(depth), ", 1, 1)".repeat(depth)),
        2 => format!("defvar x = {}a{};", "(a ".repeat(depth), ")".repeat(depth)),
        3 => format!("def d : {}A{};", "A<".repeat(depth), ">".repeat(depth)),
        4 => format!("{}def x;", "foreach i = [1] in ".repeat(depth)),
        5 => format!("defvar x = {}1{};", "{".repeat(depth), "}".repeat(depth)),
        6 => format!("class C<{}int{} x>;", "list<".repeat(depth), ">".repeat(depth)),
        _ => format!("{}def x;{}", "if 1 then { ".repeat(depth), " }".repeat(depth)),
    }
}
