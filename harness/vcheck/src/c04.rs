//! C04 grammar conformance: sentences of the documented grammar parse without errors and every constituent is
//! reachable through the typed accessors; non-sentences are flagged; the corpus parses cleanly.
use crate::core::*;
use crate::grammar::{DNode, Deriver, Grammar, Sym};
use crate::reflex;
use serde_json::{json, Value};
use std::collections::{BTreeMap, BTreeSet};
use std::sync::OnceLock;
use syntax::ast::{self, AstNode};
use syntax::syntax_kind::SyntaxKind;
use syntax::SyntaxNode;

pub struct C04;

fn strict() -> &'static Grammar {
    static G: OnceLock<Grammar> = OnceLock::new();
    G.get_or_init(|| Grammar::load(false))
}
fn loose() -> &'static Grammar {
    static G: OnceLock<Grammar> = OnceLock::new();
    G.get_or_init(|| Grammar::load(true))
}

/// nonterminal name -> syntax-tree node kind it denotes (None: an alternative / helper without a node)
fn node_kind_of(name: &str) -> Option<&'static str> {
    Some(match name {
        "BlockList" | "SingleList" | "McBody" | "StatementList" => "StatementList",
        "NameValue" | "Value" => "Value",
        "NameInnerValue" | "InnerValue" => "InnerValue",
        "BitsValueList" | "ListValueList" => "ValueList",
        "SourceFile" => "SourceFile",
        "Include" => "Include",
        "Class" => "Class",
        "Def" => "Def",
        "Let" => "Let",
        "LetList" => "LetList",
        "LetItem" => "LetItem",
        "MultiClass" => "MultiClass",
        "Defm" => "Defm",
        "Defset" => "Defset",
        "Defvar" => "Defvar",
        "Dump" => "Dump",
        "Foreach" => "Foreach",
        "ForeachIterator" => "ForeachIterator",
        "If" => "If",
        "Assert" => "Assert",
        "TemplateArgList" => "TemplateArgList",
        "TemplateArgDecl" => "TemplateArgDecl",
        "RecordBody" => "RecordBody",
        "ParentClassList" => "ParentClassList",
        "ClassRef" => "ClassRef",
        "ArgValueList" => "ArgValueList",
        "PositionalArgValue" => "PositionalArgValue",
        "NamedArgValue" => "NamedArgValue",
        "Body" => "Body",
        "FieldDef" => "FieldDef",
        "FieldLet" => "FieldLet",
        "BitType" => "BitType",
        "IntType" => "IntType",
        "StringType" => "StringType",
        "DagType" => "DagType",
        "CodeType" => "CodeType",
        "BitsType" => "BitsType",
        "ListType" => "ListType",
        "ClassId" => "ClassId",
        "RangeSuffix" => "RangeSuffix",
        "RangeList" => "RangeList",
        "RangePiece" => "RangePiece",
        "SliceSuffix" => "SliceSuffix",
        "SliceElements" => "SliceElements",
        "SliceElement" => "SliceElement",
        "FieldSuffix" => "FieldSuffix",
        "Integer" => "Integer",
        "String" => "String",
        "Code" => "Code",
        "Boolean" => "Boolean",
        "Uninitialized" => "Uninitialized",
        "Bits" => "Bits",
        "List" => "List",
        "Dag" => "Dag",
        "DagArgList" => "DagArgList",
        "DagArg" => "DagArg",
        "VarName" => "VarName",
        "Identifier" => "Identifier",
        "ClassValue" => "ClassValue",
        "BangOperator" => "BangOperator",
        "CondOperator" => "CondOperator",
        "CondClause" => "CondClause",
        _ => return None,
    })
}

// (identifiers may begin with digits as long as a letter or '_' follows somewhere: 4foo, 4_foo, 0_ ...)
const NESTED_SENTENCES: [&str; 14] = [
    "def X : Foo < Bar < a = 1 > > ;\n",
    "def X : Foo < Bar < a = 1 > , 2 > ;\n",
    "def X : Foo < 1 , Bar < a = 1 > > ;\n",
    "def X : Foo < 1 , Bar < 2 , b = 3 > , c = 4 > ;\n",
    "def X : Foo < a = Bar < 1 > > ;\n",
    "def X : Foo < a = Bar < b = 1 > > ;\n",
    "def X : Foo < Bar < Baz < a = 1 > > , 2 > ;\n",
    "class C < int p = Foo < Bar < a = 1 > > . f > : Foo < Bar < a = 1 > , p > ;\n",
    "defvar v = Foo < Bar < a = 1 > > . f ;\n",
    "defvar v = [ Foo < Bar < a = 1 > , 2 > , Foo < 3 > ] ;\n",
    "defm M : Foo < Bar < a = 1 > > , Baz < 2 > ;\n",
    "def X : Foo < !add ( 1 , 2 ) , Bar < a = !if ( true , 1 , 2 ) > > { let f = Foo < Bar < a = 1 > > ; }\n",
    "foreach i = [ 1 ] in def X # i : Foo < Bar < a = i > , i > ;\n",
    "let f = Foo < Bar < a = 1 > > in def X : Foo < Bar < 1 > > ;\n",
];
const IDS: [&str; 12] = ["A", "b", "Foo", "x1", "_t", "NAME", "4foo", "4_foo", "0_", "32_bit", "_", "x_"];
const INTS: [&str; 14] = ["0", "7", "42", "0x1F", "0b101", "3", "0xFFFFFFFFFFFFFFFF", "0x8000000000000000", "0xffffffff00000000", "0b1111111111111111111111111111111111111111111111111111111111111111", "9223372036854775807", "0x0", "0b0", "007"];
const BANGS: [&str; 10] = ["!add", "!if", "!foreach", "!cast", "!strconcat", "!eq", "!size", "!listconcat", "!foldl", "!isa"];

fn render_terminal(t: &str, rng: &mut Rng) -> String {
    match t {
        "ID" => IDS[rng.below(IDS.len())].to_string(),
        "INT" => INTS[rng.below(INTS.len())].to_string(),
        "STRING" => ["\"s\"", "\"a b\"", "\"\"", "\"a\\\\\"", "\"\\\\\"", "\"q\\\"x\"", "\"\\n\\t\"", "\"C:\\\\dir\\\\\""][rng.below(8)].to_string(),
        "CODE" => "[{ c }]".to_string(),
        "VARNAME" => ["$v", "$_x", "$_", "$a1_b"][rng.below(4)].to_string(),
        "BANGOP" => BANGS[rng.below(BANGS.len())].to_string(),
        lit => lit.to_string(),
    }
}

/// text of a token sequence: tokens are separated by at least one blank; returns byte spans per token
fn render(tokens: &[String], rng: &mut Rng) -> (String, Vec<(usize, usize)>) {
    let mut text = String::new();
    let mut spans = Vec::new();
    for (i, t) in tokens.iter().enumerate() {
        if i > 0 {
            match rng.below(12) {
                0 => text.push('\n'),
                1 => text.push_str("  "),
                2 => text.push_str(" /* c */ "),
                3 => text.push_str(" // c\n"),
                _ => text.push(' '),
            }
        }
        let s = text.len();
        text.push_str(t);
        spans.push((s, text.len()));
    }
    text.push('\n');
    (text, spans)
}

/// terminals of a text according to the independent reference lexer; None if it is not lexically valid
fn terminals_of(text: &str) -> Option<Vec<String>> {
    let toks = reflex::lex(text).ok()?;
    let mut out = Vec::new();
    for t in toks {
        let s = &text[t.start..t.end];
        out.push(match t.class {
            reflex::Class::Ident => "ID".to_string(),
            reflex::Class::Int | reflex::Class::BinInt => "INT".to_string(),
            reflex::Class::Str => "STRING".to_string(),
            reflex::Class::Code => "CODE".to_string(),
            reflex::Class::VarName => "VARNAME".to_string(),
            reflex::Class::BangOp => "BANGOP".to_string(),
            reflex::Class::CondOp => "!cond".to_string(),
            reflex::Class::Keyword | reflex::Class::Punct => s.to_string(),
            reflex::Class::Directive => return None,
        });
    }
    Some(out)
}

// ---------------------------------------------------------------------------------------------- accessor walk
/// (kind, first non-trivia token start, last non-trivia token end) of a node; None if it holds no token
fn token_span(n: &SyntaxNode) -> Option<(usize, usize)> {
    let mut first = None;
    let mut last = None;
    for el in n.descendants_with_tokens() {
        if let Some(t) = el.as_token() {
            if !t.kind().is_trivia() {
                let r = t.text_range();
                if first.is_none() {
                    first = Some(usize::from(r.start()));
                }
                last = Some(usize::from(r.end()));
            }
        }
    }
    Some((first?, last?))
}

struct Walk {
    reached: BTreeSet<(String, usize, usize)>,
    order_violations: Vec<String>,
}
impl Walk {
    fn node<N: AstNode<Language = syntax::Language>>(&mut self, n: &N) {
        let sn = n.syntax();
        if let Some((s, e)) = token_span(sn) {
            self.reached.insert((format!("{:?}", sn.kind()), s, e));
        }
    }
    fn ordered<N: AstNode<Language = syntax::Language>>(&mut self, what: &str, items: &[N]) {
        let mut last = 0usize;
        for it in items {
            let s = usize::from(it.syntax().text_range().start());
            if s < last {
                self.order_violations.push(format!("{} not in source order at {}", what, s));
            }
            last = s;
        }
    }
    fn source_file(&mut self, n: &ast::SourceFile) {
        self.node(n);
        if let Some(l) = n.statement_list() {
            self.statement_list(&l);
        }
    }
    fn statement_list(&mut self, n: &ast::StatementList) {
        self.node(n);
        let items: Vec<ast::Statement> = n.statements().collect();
        self.ordered("StatementList.statements", &items);
        for s in items {
            self.statement(&s);
        }
    }
    fn statement(&mut self, s: &ast::Statement) {
        match s {
            ast::Statement::Include(x) => {
                self.node(x);
                if let Some(p) = x.path() {
                    self.node(&p);
                }
            }
            ast::Statement::Assert(x) => self.assert(x),
            ast::Statement::Class(x) => {
                self.node(x);
                if let Some(i) = x.name() {
                    self.node(&i);
                }
                if let Some(t) = x.template_arg_list() {
                    self.template_arg_list(&t);
                }
                if let Some(b) = x.record_body() {
                    self.record_body(&b);
                }
            }
            ast::Statement::Def(x) => {
                self.node(x);
                if let Some(v) = x.name() {
                    self.value(&v);
                }
                if let Some(b) = x.record_body() {
                    self.record_body(&b);
                }
            }
            ast::Statement::Defm(x) => {
                self.node(x);
                if let Some(v) = x.name() {
                    self.value(&v);
                }
                if let Some(p) = x.parent_class_list() {
                    self.parent_class_list(&p);
                }
            }
            ast::Statement::Defset(x) => {
                self.node(x);
                if let Some(t) = x.r#type() {
                    self.ty(&t);
                }
                if let Some(i) = x.name() {
                    self.node(&i);
                }
                if let Some(l) = x.statement_list() {
                    self.statement_list(&l);
                }
            }
            ast::Statement::Defvar(x) => self.defvar(x),
            ast::Statement::Dump(x) => self.dump(x),
            ast::Statement::Foreach(x) => {
                self.node(x);
                if let Some(it) = x.iterator() {
                    self.node(&it);
                    if let Some(i) = it.name() {
                        self.node(&i);
                    }
                    match it.init() {
                        Some(ast::ForeachIteratorInit::RangeList(r)) => self.range_list(&r),
                        Some(ast::ForeachIteratorInit::RangePiece(r)) => self.range_piece(&r),
                        Some(ast::ForeachIteratorInit::Value(v)) => self.value(&v),
                        None => {}
                    }
                }
                if let Some(b) = x.body() {
                    self.statement_list(&b);
                }
            }
            ast::Statement::If(x) => {
                self.node(x);
                if let Some(c) = x.condition() {
                    self.value(&c);
                }
                let (t, e) = (x.then_body(), x.else_body());
                if let (Some(t), Some(e)) = (&t, &e) {
                    if e.syntax().text_range().start() < t.syntax().text_range().start() {
                        self.order_violations.push("If.then_body/else_body swapped".into());
                    }
                }
                if let Some(t) = t {
                    self.statement_list(&t);
                }
                if let Some(e) = e {
                    self.statement_list(&e);
                }
            }
            ast::Statement::Let(x) => {
                self.node(x);
                if let Some(l) = x.let_list() {
                    self.node(&l);
                    let items: Vec<ast::LetItem> = l.items().collect();
                    self.ordered("LetList.items", &items);
                    for it in items {
                        self.node(&it);
                        if let Some(i) = it.name() {
                            self.node(&i);
                        }
                        if let Some(r) = it.range_list() {
                            self.range_list(&r);
                        }
                        if let Some(v) = it.value() {
                            self.value(&v);
                        }
                    }
                }
                if let Some(b) = x.statement_list() {
                    self.statement_list(&b);
                }
            }
            ast::Statement::MultiClass(x) => {
                self.node(x);
                if let Some(i) = x.name() {
                    self.node(&i);
                }
                if let Some(t) = x.template_arg_list() {
                    self.template_arg_list(&t);
                }
                if let Some(p) = x.parent_class_list() {
                    self.parent_class_list(&p);
                }
                if let Some(l) = x.statement_list() {
                    self.statement_list(&l);
                }
            }
        }
    }
    fn assert(&mut self, x: &ast::Assert) {
        self.node(x);
        let (c, m) = (x.condition(), x.message());
        if let (Some(c), Some(m)) = (&c, &m) {
            if m.syntax().text_range().start() < c.syntax().text_range().start() {
                self.order_violations.push("Assert.condition/message swapped".into());
            }
        }
        if let Some(c) = c {
            self.value(&c);
        }
        if let Some(m) = m {
            self.value(&m);
        }
    }
    fn defvar(&mut self, x: &ast::Defvar) {
        self.node(x);
        if let Some(i) = x.name() {
            self.node(&i);
        }
        if let Some(v) = x.value() {
            self.value(&v);
        }
    }
    fn dump(&mut self, x: &ast::Dump) {
        self.node(x);
        if let Some(v) = x.value() {
            self.value(&v);
        }
    }
    fn template_arg_list(&mut self, t: &ast::TemplateArgList) {
        self.node(t);
        let items: Vec<ast::TemplateArgDecl> = t.args().collect();
        self.ordered("TemplateArgList.args", &items);
        for a in items {
            self.node(&a);
            if let Some(t) = a.r#type() {
                self.ty(&t);
            }
            if let Some(i) = a.name() {
                self.node(&i);
            }
            if let Some(v) = a.value() {
                self.value(&v);
            }
        }
    }
    fn record_body(&mut self, b: &ast::RecordBody) {
        self.node(b);
        if let Some(p) = b.parent_class_list() {
            self.parent_class_list(&p);
        }
        if let Some(body) = b.body() {
            self.node(&body);
            let items: Vec<ast::BodyItem> = body.items().collect();
            self.ordered("Body.items", &items);
            for it in items {
                match it {
                    ast::BodyItem::FieldDef(f) => {
                        self.node(&f);
                        if let Some(t) = f.r#type() {
                            self.ty(&t);
                        }
                        if let Some(i) = f.name() {
                            self.node(&i);
                        }
                        if let Some(v) = f.value() {
                            self.value(&v);
                        }
                    }
                    ast::BodyItem::FieldLet(f) => {
                        self.node(&f);
                        if let Some(i) = f.name() {
                            self.node(&i);
                        }
                        if let Some(v) = f.value() {
                            self.value(&v);
                        }
                    }
                    ast::BodyItem::Defvar(d) => self.defvar(&d),
                    ast::BodyItem::Assert(a) => self.assert(&a),
                    ast::BodyItem::Dump(d) => self.dump(&d),
                }
            }
        }
    }
    fn parent_class_list(&mut self, p: &ast::ParentClassList) {
        self.node(p);
        let items: Vec<ast::ClassRef> = p.classes().collect();
        self.ordered("ParentClassList.classes", &items);
        for c in items {
            self.node(&c);
            if let Some(i) = c.name() {
                self.node(&i);
            }
            if let Some(a) = c.arg_value_list() {
                self.arg_value_list(&a);
            }
        }
    }
    fn arg_value_list(&mut self, a: &ast::ArgValueList) {
        self.node(a);
        let items: Vec<ast::ArgValue> = a.arg_values().collect();
        self.ordered("ArgValueList.arg_values", &items);
        for v in items {
            match v {
                ast::ArgValue::PositionalArgValue(p) => {
                    self.node(&p);
                    if let Some(v) = p.value() {
                        self.value(&v);
                    }
                }
                ast::ArgValue::NamedArgValue(n) => {
                    self.node(&n);
                    let (a, b) = (n.name(), n.value());
                    if let (Some(a), Some(b)) = (&a, &b) {
                        if b.syntax().text_range().start() < a.syntax().text_range().start() {
                            self.order_violations.push("NamedArgValue.name/value swapped".into());
                        }
                    }
                    if let Some(a) = a {
                        self.value(&a);
                    }
                    if let Some(b) = b {
                        self.value(&b);
                    }
                }
            }
        }
    }
    fn ty(&mut self, t: &ast::Type) {
        match t {
            ast::Type::BitType(x) => self.node(x),
            ast::Type::IntType(x) => self.node(x),
            ast::Type::StringType(x) => self.node(x),
            ast::Type::DagType(x) => self.node(x),
            ast::Type::CodeType(x) => self.node(x),
            ast::Type::BitsType(x) => {
                self.node(x);
                if let Some(i) = x.length() {
                    self.node(&i);
                }
            }
            ast::Type::ListType(x) => {
                self.node(x);
                if let Some(i) = x.inner_type() {
                    self.ty(&i);
                }
            }
            ast::Type::ClassId(x) => {
                self.node(x);
                if let Some(i) = x.name() {
                    self.node(&i);
                }
            }
        }
    }
    fn range_list(&mut self, r: &ast::RangeList) {
        self.node(r);
        let items: Vec<ast::RangePiece> = r.pieces().collect();
        self.ordered("RangeList.pieces", &items);
        for p in items {
            self.range_piece(&p);
        }
    }
    fn range_piece(&mut self, p: &ast::RangePiece) {
        self.node(p);
        let (a, b) = (p.start(), p.end());
        if let (Some(a), Some(b)) = (&a, &b) {
            if b.syntax().text_range().start() < a.syntax().text_range().start() {
                self.order_violations.push("RangePiece.start/end swapped".into());
            }
        }
        if let Some(a) = a {
            self.node(&a);
        }
        if let Some(b) = b {
            self.node(&b);
        }
    }
    fn value(&mut self, v: &ast::Value) {
        self.node(v);
        let items: Vec<ast::InnerValue> = v.inner_values().collect();
        self.ordered("Value.inner_values", &items);
        for iv in items {
            self.node(&iv);
            if let Some(s) = iv.simple_value() {
                self.simple_value(&s);
            }
            let sufs: Vec<ast::ValueSuffix> = iv.suffixes().collect();
            self.ordered("InnerValue.suffixes", &sufs);
            for s in sufs {
                match s {
                    ast::ValueSuffix::RangeSuffix(r) => {
                        self.node(&r);
                        if let Some(l) = r.range_list() {
                            self.range_list(&l);
                        }
                    }
                    ast::ValueSuffix::SliceSuffix(x) => {
                        self.node(&x);
                        if let Some(l) = x.element_list() {
                            self.node(&l);
                            let els: Vec<ast::SliceElement> = l.elements().collect();
                            self.ordered("SliceElements.elements", &els);
                            for e in els {
                                self.node(&e);
                                let (a, b) = (e.start(), e.end());
                                if let (Some(a), Some(b)) = (&a, &b) {
                                    if b.syntax().text_range().start() < a.syntax().text_range().start() {
                                        self.order_violations.push("SliceElement.start/end swapped".into());
                                    }
                                }
                                if let Some(a) = a {
                                    self.value(&a);
                                }
                                if let Some(b) = b {
                                    self.value(&b);
                                }
                            }
                        }
                    }
                    ast::ValueSuffix::FieldSuffix(f) => {
                        self.node(&f);
                        if let Some(i) = f.name() {
                            self.node(&i);
                        }
                    }
                }
            }
        }
    }
    fn simple_value(&mut self, s: &ast::SimpleValue) {
        match s {
            ast::SimpleValue::Integer(x) => self.node(x),
            ast::SimpleValue::String(x) => self.node(x),
            ast::SimpleValue::Code(x) => self.node(x),
            ast::SimpleValue::Boolean(x) => self.node(x),
            ast::SimpleValue::Uninitialized(x) => self.node(x),
            ast::SimpleValue::Identifier(x) => self.node(x),
            ast::SimpleValue::Bits(x) => {
                self.node(x);
                if let Some(l) = x.value_list() {
                    self.value_list(&l);
                }
            }
            ast::SimpleValue::List(x) => {
                self.node(x);
                if let Some(l) = x.value_list() {
                    self.value_list(&l);
                }
            }
            ast::SimpleValue::Dag(x) => {
                self.node(x);
                if let Some(o) = x.operator() {
                    self.dag_arg(&o);
                }
                if let Some(l) = x.arg_list() {
                    self.node(&l);
                    let items: Vec<ast::DagArg> = l.args().collect();
                    self.ordered("DagArgList.args", &items);
                    for a in items {
                        self.dag_arg(&a);
                    }
                }
            }
            ast::SimpleValue::ClassValue(x) => {
                self.node(x);
                if let Some(i) = x.name() {
                    self.node(&i);
                }
                if let Some(a) = x.arg_value_list() {
                    self.arg_value_list(&a);
                }
            }
            ast::SimpleValue::BangOperator(x) => {
                self.node(x);
                if let Some(t) = x.r#type() {
                    self.ty(&t);
                }
                let items: Vec<ast::Value> = x.values().collect();
                self.ordered("BangOperator.values", &items);
                for v in items {
                    self.value(&v);
                }
            }
            ast::SimpleValue::CondOperator(x) => {
                self.node(x);
                let items: Vec<ast::CondClause> = x.clauses().collect();
                self.ordered("CondOperator.clauses", &items);
                for c in items {
                    self.node(&c);
                    let (a, b) = (c.condition(), c.value());
                    if let (Some(a), Some(b)) = (&a, &b) {
                        if b.syntax().text_range().start() < a.syntax().text_range().start() {
                            self.order_violations.push("CondClause.condition/value swapped".into());
                        }
                    }
                    if let Some(a) = a {
                        self.value(&a);
                    }
                    if let Some(b) = b {
                        self.value(&b);
                    }
                }
            }
        }
    }
    fn value_list(&mut self, l: &ast::ValueList) {
        self.node(l);
        let items: Vec<ast::Value> = l.values().collect();
        self.ordered("ValueList.values", &items);
        for v in items {
            self.value(&v);
        }
    }
    fn dag_arg(&mut self, a: &ast::DagArg) {
        self.node(a);
        if let Some(v) = a.value() {
            self.value(&v);
        }
        if let Some(n) = a.var_name() {
            self.node(&n);
        }
    }
}

/// constituents of a derivation that denote syntax-tree nodes and are observable through declared accessors
fn constituents(g: &Grammar, d: &DNode, spans: &[(usize, usize)], parent: &str, out: &mut Vec<(String, usize, usize, String)>) {
    let name = g.names[d.nt].split('\'').next().unwrap_or("").to_string();
    let named = g.named[d.nt];
    // ForeachIteratorInit ::= "{" RangeList "}" | RangePiece | Value is ambiguous: a text that starts with "{" or
    // an integer has two readings and either tree is right, so nothing below it is demanded
    if named && name == "ForeachIteratorInit" {
        return;
    }
    let here = if named { name.clone() } else { parent.to_string() };
    if named && d.toks.1 > d.toks.0 {
        if let Some(kind) = node_kind_of(&name) {
            // not observable: ast.rs declares no accessor for these positions
            let unobservable = (kind == "RangeList" && parent == "FieldLet") || (parent == "List" && name != "ListValueList") || kind == "VarName" && parent == "DagArg" && false;
            if unobservable {
                return; // nothing below an unobservable position can be reached either
            }
            out.push((kind.to_string(), spans[d.toks.0].0, spans[d.toks.1 - 1].1, parent.to_string()));
        }
    }
    for c in &d.children {
        constituents(g, c, spans, &here, out);
    }
}

/// (name, start, end) of every written nonterminal of a derivation that covers at least one token
fn named_spans(g: &Grammar, d: &DNode, spans: &[(usize, usize)], out: &mut Vec<(String, usize, usize)>) {
    if g.named[d.nt] && d.toks.1 > d.toks.0 {
        out.push((g.names[d.nt].clone(), spans[d.toks.0].0, spans[d.toks.1 - 1].1));
    }
    for c in &d.children {
        named_spans(g, c, spans, out);
    }
}

/// `if a then if b then X else Y`: the documented grammar lets the else belong to either if
fn has_dangling_else(g: &Grammar, d: &DNode) -> bool {
    fn first_named<'a>(g: &Grammar, d: &'a DNode, name: &str) -> Option<&'a DNode> {
        if g.named[d.nt] && g.names[d.nt] == name {
            return Some(d);
        }
        d.children.iter().find_map(|c| first_named(g, c, name))
    }
    fn if_has_else(g: &Grammar, d: &DNode) -> bool {
        // If ::= "if" Value "then" Block ( "else" Block )? : two Block descendants at the top level of this If
        fn count_blocks(g: &Grammar, d: &DNode, n: &mut usize) {
            for c in &d.children {
                if g.named[c.nt] && g.names[c.nt] == "Block" {
                    *n += 1;
                } else if !g.named[c.nt] {
                    count_blocks(g, c, n);
                }
            }
        }
        let mut n = 0;
        count_blocks(g, d, &mut n);
        n >= 2
    }
    let mut found = false;
    fn walk(g: &Grammar, d: &DNode, found: &mut bool, first_named: &dyn Fn(&Grammar, &DNode, &str) -> bool) {
        if g.named[d.nt] && g.names[d.nt] == "If" && if_has_else(g, d) {
            // then-branch = first Block; is it a SingleList that (transitively through single statements) ends in an If?
            if first_named(g, d, "") {
                *found = true;
            }
        }
        for c in &d.children {
            walk(g, c, found, first_named);
        }
    }
    let check = |g: &Grammar, d: &DNode, _: &str| -> bool {
        // the first Block child
        fn first_block<'a>(g: &Grammar, d: &'a DNode) -> Option<&'a DNode> {
            for c in &d.children {
                if g.named[c.nt] && g.names[c.nt] == "Block" {
                    return Some(c);
                }
                if !g.named[c.nt] {
                    if let Some(b) = first_block(g, c) {
                        return Some(b);
                    }
                }
            }
            None
        }
        let Some(b) = first_block(g, d) else { return false };
        // a braceless block whose statement nests another braceless construct ending in an if
        fn ends_in_open_if(g: &Grammar, d: &DNode) -> bool {
            if g.named[d.nt] && g.names[d.nt] == "BlockList" {
                return false;
            }
            if g.named[d.nt] && g.names[d.nt] == "If" {
                return true;
            }
            d.children.last().map(|c| ends_in_open_if(g, c)).unwrap_or(false)
        }
        first_named(g, b, "SingleList").map(|s| ends_in_open_if(g, s)).unwrap_or(false)
    };
    walk(g, d, &mut found, &check);
    found
}

fn sentence_case(text: &str) -> Value {
    json!({"kind": "text", "text": text})
}

fn positive(text: &str, derivation: Option<(&Grammar, &DNode, &[(usize, usize)])>, origin: &str, ctx: &mut Ctx) {
    ctx.eval();
    ctx.current_text(text);
    let r = guard(|| {
        let p = syntax::parse(text);
        let errs: Vec<(usize, usize, String)> = p.errors().iter().map(|e| (usize::from(e.range.start()), usize::from(e.range.end()), e.message.clone())).collect();
        let mut w = Walk { reached: BTreeSet::new(), order_violations: vec![] };
        if let Some(sf) = p.source_file() {
            w.source_file(&sf);
        }
        (errs, w)
    });
    match r {
        Err(pi) => ctx.panic_violation("parse:", &pi, sentence_case(text)),
        Ok((errs, w)) => {
            if let Some((s, e, m)) = errs.first() {
                // where in the derivation does the error sit
                let ctxname = derivation
                    .map(|(g, d, spans)| {
                        let mut cons = Vec::new();
                        constituents(g, d, spans, "SourceFile", &mut cons);
                        cons.iter().filter(|c| c.1 <= *s && *s <= c.2 && c.0 != "SourceFile" && c.0 != "StatementList").min_by_key(|c| c.2 - c.1).map(|c| format!("{}<{}", c.0, c.3)).unwrap_or_default()
                    })
                    .unwrap_or_default();
                let msg: String = m.chars().filter(|c| !c.is_ascii_digit()).take(50).collect();
                let _ = origin;
                let category = match derivation {
                    Some((g, d, spans)) => {
                        let mut ns = Vec::new();
                        named_spans(g, d, spans, &mut ns);
                        let inside = |name: &str| ns.iter().find(|n| n.0 == name && n.1 <= *s && *s <= n.2.max(n.1));
                        let adjacent_strings = terminals_of(text).map(|t| t.windows(2).any(|w| w[0] == "STRING" && w[1] == "STRING")).unwrap_or(false);
                        if adjacent_strings {
                            // two string literals that the grammar keeps apart (end of one value, start of the next
                            // dag argument) are merged by the parser's adjacent-string concatenation
                            "adjacent-strings-merged".to_string()
                        } else if m.contains("positional argument should be put before named") && {
                            // the known strictness concerns one argument list with a positional argument behind a named
                            // one; the same message on a sentence without such a list is something else
                            let lists: Vec<&(String, usize, usize)> = ns.iter().filter(|n| n.0 == "ArgValueList").collect();
                            let mut per_list: std::collections::BTreeMap<(usize, usize), Vec<(usize, bool)>> = std::collections::BTreeMap::new();
                            for a in ns.iter().filter(|n| n.0 == "PositionalArgValue" || n.0 == "NamedArgValue") {
                                if let Some(l) = lists.iter().filter(|l| l.1 <= a.1 && a.2 <= l.2).min_by_key(|l| l.2 - l.1) {
                                    per_list.entry((l.1, l.2)).or_default().push((a.1, a.0 == "NamedArgValue"));
                                }
                            }
                            per_list.values_mut().any(|v| {
                                v.sort();
                                v.iter().position(|x| x.1).map(|i| v[i..].iter().any(|x| !x.1)).unwrap_or(false)
                            })
                        } {
                            "positional-after-named-argument".to_string()
                        } else if m.contains("identifier in dag init") {
                            "dag-operator-not-identifier".to_string()
                        } else if inside("ForeachIteratorInit").is_some() || ns.iter().any(|n| n.0 == "ForeachIteratorInit" && *s >= n.1 && *s <= n.2 + 4) {
                            "foreach-init-read-as-range-piece".to_string()
                        } else if ns.iter().any(|n| n.0 == "NameValue" && text[n.1..].starts_with('{') && *s >= n.1) {
                            "record-name-starting-with-brace".to_string()
                        } else {
                            format!("{}:{}", ctxname, msg)
                        }
                    }
                    None => msg.clone(),
                };
                ctx.violation(
                    format!("sentence-rejected:{}", category),
                    format!("a sentence of the documented grammar gets {} syntax error(s), first: {:?} at {}..{} ({:?})", errs.len(), m, s, e, text.get(*s..(*e).min(text.len())).unwrap_or("")),
                    sentence_case(text),
                );
                return;
            }
            for o in &w.order_violations {
                ctx.violation(format!("accessor-order:{}", o.split(" at ").next().unwrap_or(o)), o.clone(), sentence_case(text));
            }
            if let Some((g, d, spans)) = derivation {
                if has_dangling_else(g, d) {
                    ctx.feature("dangling_else_sentences_not_walked");
                    return;
                }
                let mut cons = Vec::new();
                constituents(g, d, spans, "SourceFile", &mut cons);
                ctx.feature_n("constituents_checked", cons.len() as u64);
                for (kind, s, e, parent) in cons {
                    // ForeachIteratorInit ::= "{" RangeList "}" | RangePiece | Value is ambiguous for texts that start
                    // with an integer: either reading is a correct tree
                    let ambiguous = parent == "ForeachIteratorInit" || (kind == "Integer" && w.reached.iter().any(|r| r.1 <= s && e <= r.2 && (r.0 == "RangePiece" || r.0 == "Value")));
                    if ambiguous && w.reached.iter().any(|r| r.1 == s && r.2 == e) {
                        continue;
                    }
                    if !w.reached.contains(&(kind.clone(), s, e)) {
                        let near: Vec<_> = w.reached.iter().filter(|r| r.0 == kind && (r.1 == s || r.2 == e)).collect();
                        // the known leniency again, in a sentence the parser accepts: the constituent ends in a string
                        // literal, the next constituent starts with one, and the parser has concatenated the two - so a
                        // node of the same kind starts where the constituent starts and runs on over the next literal
                        let ends_in_string = text.get(s..e).map(|t| t.trim_end().ends_with('"')).unwrap_or(false);
                        let merged = ends_in_string
                            && w.reached.iter().any(|r| {
                                r.0 == kind && r.1 == s && r.2 > e && {
                                    let tail = text.get(e..r.2).unwrap_or("");
                                    let mut t = tail.trim_start();
                                    while t.starts_with("/*") {
                                        t = t.find("*/").map(|i| t[i + 2..].trim_start()).unwrap_or("");
                                    }
                                    // (the concatenated literal may be pasted on: `"a" "b" # x`)
                                    t.starts_with('"')
                                }
                            });
                        ctx.violation(
                            if merged { "constituent-unreachable:adjacent-strings-merged".to_string() } else { format!("constituent-unreachable:{}<{}", kind, parent) },
                            format!("{} at {}..{} ({:?}) of the derivation is not reached through the typed accessors with that range (same kind nearby: {:?})", kind, s, e, text.get(s..e).unwrap_or(""), near),
                            sentence_case(text),
                        );
                        break;
                    }
                }
            }
        }
    }
}

fn negative(text: &str, failure: &(usize, Vec<String>), terms: &[String], ctx: &mut Ctx) {
    ctx.eval();
    ctx.current_text(text);
    match guard(|| syntax::parse(text).errors().len()) {
        Err(pi) => ctx.panic_violation("parse:", &pi, sentence_case(text)),
        Ok(0) => {
            let (k, active) = failure;
            let prev = if *k > 0 { terms[*k - 1].as_str() } else { "<start>" };
            let cur = terms.get(*k).map(|s| s.as_str()).unwrap_or("<end>");
            // context: the most specific construct in progress (generic wrappers dropped)
            let generic = ["Value", "InnerValue", "NameValue", "NameInnerValue", "StatementList", "BlockList", "SingleList", "McBody", "SourceFile", "Block", "Statement"];
            let ctxname = if prev == "STRING" && cur == "STRING" {
                "any".to_string()
            } else if active.iter().any(|a| a == "SliceElement" || a == "SliceElements") && !matches!(prev, "," | "[" | "..." | "-") && !matches!(cur, "," | "]" | "<end>") {
                // `x[a b]`: the documented SliceElement ::= Value Integer, the parser takes any second value
                return ctx.violation("non-sentence-accepted:second-value-in-slice-element", format!("not derivable (a slice element of two values, {:?} then {:?}) but parsed with zero errors", prev, cur), sentence_case(text));
            } else { active.iter().find(|a| !generic.contains(&a.as_str())).cloned().unwrap_or_else(|| "-".into()) };
            ctx.violation(
                format!("non-sentence-accepted:{}>{} in {}", prev, cur, ctxname),
                format!("not derivable from the documented grammar (reference recogniser stops at token #{} {:?} after {:?}, inside {:?}) but parsed with zero errors", k, cur, prev, active),
                sentence_case(text),
            );
        }
        Ok(_) => {}
    }
}

fn mutate_terminals(terms: &[String], rng: &mut Rng) -> (Vec<String>, &'static str) {
    let mut v = terms.to_vec();
    let pool = ["ID", "INT", "STRING", ";", ",", "{", "}", "<", ">", "(", ")", "[", "]", "=", ":", "#", ".", "...", "-", "class", "def", "let", "in", "int", "bit", "list", "then", "else", "if", "?", "true", "BANGOP", "!cond", "VARNAME", "CODE", "field", "include", "foreach", "defvar", "assert", "multiclass", "defm", "defset", "dump"];
    if v.is_empty() {
        return (vec![pool[rng.below(pool.len())].to_string()], "insert");
    }
    let n = if rng.chance(1, 3) { 2 } else { 1 };
    let mut tag = "delete";
    for _ in 0..n {
        if v.is_empty() {
            break;
        }
        let i = rng.below(v.len());
        match rng.below(5) {
            0 => {
                v.remove(i);
                tag = "delete";
            }
            1 => {
                v.insert(i, pool[rng.below(pool.len())].to_string());
                tag = "insert";
            }
            2 => {
                let x = v[i].clone();
                v.insert(i, x);
                tag = "duplicate";
            }
            3 => {
                if i + 1 < v.len() {
                    v.swap(i, i + 1);
                }
                tag = "transpose";
            }
            _ => {
                v[i] = pool[rng.below(pool.len())].to_string();
                tag = "replace";
            }
        }
    }
    (v, tag)
}

impl Check for C04 {
    fn id(&self) -> &'static str {
        "C04"
    }
    fn units(&self, tier: Tier, _seed: u64) -> u64 {
        tier.pick(64, 480) + 1
    }
    fn run_unit(&self, unit: u64, ctx: &mut Ctx) {
        let gs = strict();
        let gl = loose();
        if unit == 0 {
            // hand-written sentences for nestings the random deriver reaches too rarely: argument lists inside
            // argument lists (positional and named), in parent lists and in values
            for t in NESTED_SENTENCES {
                ctx.current_text(t);
                match terminals_of(t) {
                    Some(terms) if gs.recognise(&terms).is_ok() => {
                        ctx.feature("directed_nested_sentences");
                        positive(t, None, "directed", ctx);
                    }
                    _ => ctx.note(format!("directed sentence is not a sentence of the reference grammar (harness fault, not reported): {}", t)),
                }
            }
            // corpus: real-world files parse with zero errors; the repository's own snapshot inputs are sentences
            for f in crate::texts::corpus() {
                ctx.eval();
                ctx.current_text(&f.text);
                let n = syntax::parse(&f.text).errors().len();
                ctx.feature("corpus_files");
                ctx.nontrivial(fnv64(f.text.as_bytes()));
                if n > 0 {
                    let e = syntax::parse(&f.text).errors()[0].clone();
                    ctx.violation("corpus-file-rejected", format!("{}: {} syntax errors, first {:?} at {:?}", f.name, n, e.message, e.range), json!({"kind": "corpus", "file": f.name}));
                }
            }
            for s in crate::texts::SNIPPETS {
                if s.contains('#') && (s.contains("#define") || s.contains("#if")) {
                    continue;
                }
                if let Some(terms) = terminals_of(s) {
                    ctx.feature("snippets");
                    match gs.recognise(&terms) {
                        Ok(()) => positive(s, None, "snippet", ctx),
                        Err(f) => {
                            if gl.recognise(&terms).is_err() {
                                ctx.feature("snippet_outside_reference_grammar");
                                ctx.note(format!("snippet is not a sentence of the reference grammar (stops at #{}): {:?}", f.0, s.chars().take(60).collect::<String>()));
                            }
                        }
                    }
                }
            }
            return;
        }
        let mut rng = Rng::derive(ctx.seed, 0x4000, unit);
        let mut der = Deriver::new(gs);
        let per_unit = ctx.tier.pick(300, 900);
        for k in 0..per_unit {
            let mut terms_abs: Vec<String> = Vec::new();
            let budget = 8 + rng.below(14) as u32;
            let d = der.derive(gs.start, budget, &mut rng, &mut terms_abs);
            if terms_abs.len() > 120 {
                continue;
            }
            let concrete: Vec<String> = terms_abs.iter().map(|t| render_terminal(t, &mut rng)).collect();
            let (text, spans) = render(&concrete, &mut rng);
            // the reference lexer must see exactly the terminals we derived (else: harness fault, not a verdict)
            match terminals_of(&text) {
                Some(t) if t == terms_abs => {}
                other => {
                    ctx.feature("rendering_mismatch");
                    ctx.note(format!("rendered text does not lex back to the derived terminals: {:?} vs {:?}", other.map(|o| o.len()), terms_abs.len()));
                    continue;
                }
            }
            ctx.feature("sentences");
            ctx.feature_n("sentence_tokens", terms_abs.len() as u64);
            ctx.nontrivial(fnv64(text.as_bytes()));
            if k == 0 && ctx.want_sample() {
                ctx.sample(json!({"sentence": text}));
            }
            positive(&text, Some((gs, &d, &spans)), "derived", ctx);
            // token-level mutants: the reference recogniser (with the trailing-separator allowance) decides
            for _ in 0..ctx.tier.pick(8, 20) {
                let (m, tag) = mutate_terminals(&terms_abs, &mut rng);
                if m.len() > 130 {
                    continue;
                }
                let concrete: Vec<String> = m.iter().map(|t| render_terminal(t, &mut rng)).collect();
                let (mtext, _) = render(&concrete, &mut rng);
                match terminals_of(&mtext) {
                    Some(t) if t == m => {}
                    _ => continue, // e.g. "[" "{" rendered apart is fine, but "-" INT may fuse: skip what does not lex back
                }
                ctx.feature(&format!("mutant:{}", tag));
                match gl.recognise(&m) {
                    Ok(()) => {
                        // still a sentence (of the loose grammar); a strict sentence is another positive
                        if gs.recognise(&m).is_ok() {
                            ctx.feature("mutant_still_sentence");
                        }
                    }
                    Err(f) => {
                        ctx.feature("mutant_non_sentence");
                        // adjacent string literals are one known leniency; if merging them makes the text a
                        // sentence, that leniency is the only reason and it is reported under its own signature
                        let mut merged: Vec<String> = Vec::new();
                        for t in &m {
                            if t == "STRING" && merged.last().map(|l| l == "STRING").unwrap_or(false) {
                                continue;
                            }
                            merged.push(t.clone());
                        }
                        if merged.len() < m.len() {
                            match gl.recognise(&merged) {
                                Ok(()) => {
                                    let k = m.windows(2).position(|w| w[0] == "STRING" && w[1] == "STRING").unwrap_or(0) + 1;
                                    negative(&mtext, &(k, vec![]), &m, ctx);
                                }
                                Err(f2) => {
                                    // some other reason as well: judge the merged sequence (its own text)
                                    let concrete: Vec<String> = merged.iter().map(|t| render_terminal(t, &mut rng)).collect();
                                    let (t2, _) = render(&concrete, &mut rng);
                                    if terminals_of(&t2).as_ref() == Some(&merged) {
                                        negative(&t2, &f2, &merged, ctx);
                                    }
                                }
                            }
                        } else {
                            negative(&mtext, &f, &m, ctx);
                        }
                    }
                }
            }
        }
        // rule coverage of this unit's deriver
        let covered = der.used.iter().filter(|u| **u > 0).count();
        ctx.metric_max("rules_covered_per_unit", covered as f64);
        ctx.metric_max("rules_total", gs.rules.len() as f64);
        if covered == gs.rules.len() {
            ctx.feature("units_with_full_rule_coverage");
        } else {
            let missing: Vec<String> = der.used.iter().enumerate().filter(|(_, u)| **u == 0).map(|(i, _)| gs.names[gs.rules[i].lhs].clone()).take(5).collect();
            ctx.note(format!("unit did not derive every alternative; missing e.g. {:?}", missing));
        }
    }
    fn replay(&self, case: &Value, ctx: &mut Ctx) {
        if let Some(text) = case["text"].as_str() {
            match terminals_of(text) {
                Some(terms) => match strict().recognise(&terms) {
                    Ok(()) => positive(text, None, "replayed", ctx),
                    Err(_) => match loose().recognise(&terms) {
                        Ok(()) => {}
                        Err(f) => negative(text, &f, &terms, ctx),
                    },
                },
                None => ctx.note("replayed text is not lexically valid for the reference lexer"),
            }
        } else if let Some(name) = case["file"].as_str() {
            if let Some(f) = crate::texts::corpus().iter().find(|f| f.name == name) {
                ctx.eval();
                if !syntax::parse(&f.text).errors().is_empty() {
                    ctx.violation("corpus-file-rejected", format!("{} has syntax errors", name), case.clone());
                }
            }
        }
    }
    fn rule(&self) -> String {
        "reference grammar models/grammar.bnf (syntax.md, rule comments of grammar/*.rs win) read at run time, desugared to a CFG. POSITIVE: random derivations (depth budget 8-21, <= 120 tokens) in which the least-used alternative is preferred, so that every alternative and optional part is derived in every unit (coverage reported); each is rendered with blanks, newlines and comments between tokens, must lex back (reference lexer) to the derived terminals, must parse with zero errors, and every derivation constituent that denotes a syntax-tree node must be reached by a walk that uses ONLY the typed accessors of ast.rs, with exactly its token span, lists in source order, paired accessors (then/else, condition/message, name/value, start/end) not swapped. NEGATIVE: 8-20 single/double token deletions, insertions, duplications, transpositions, replacements per sentence; membership is decided by an Earley recogniser over terminal classes for the grammar with the trailing-separator allowance; a non-sentence must yield >= 1 syntax error; mutants that are still strict sentences are further positives. CORPUS: the 39 LLVM files and the hand-written snippets parse with zero errors. non-trivial = every sentence; distinct by text digest".into()
    }
    fn floors(&self, tier: Tier) -> Vec<(&'static str, u64)> {
        let _ = NESTED_SENTENCES.len();
        let n = tier.pick(12_000, 250_000);
        vec![("corpus_files", 39), ("sentences", n), ("mutant_non_sentence", n * 4), ("mutant_still_sentence", n / 20), ("constituents_checked", n * 6), ("units_with_full_rule_coverage", tier.pick(32, 240))]
    }
    fn assumptions(&self) -> Vec<String> {
        vec![
            "models/grammar.bnf is the documented grammar: syntax.md verbatim, with the right-hand sides of the rule comments in grammar/*.rs where they differ, parentheses of Dag as terminals, the ':' VARNAME part of DagArg optional (the repository's own snapshot input (add A:$hoge) would otherwise not be a sentence)".into(),
            "constituents for which ast.rs declares no accessor (the range list of a FieldLet, the element type after a list literal) are not demanded".into(),
            "token classes come from the independent reference lexer reflex.rs".into(),
        ]
    }
    fn technique(&self) -> &'static str {
        "grammar-directed generation with forced rule coverage + typed-accessor walk monitor (positive), Earley-decided token mutants (negative), corpus"
    }
}
