//! C08 server liveness: controlled-schedule enumeration on the real server with an online wait-for-graph
//! monitor over the lsp hook events, plus uncontrolled stress with injected delays.
use crate::core::*;
use crate::lspdrv::{self, Event, Session};
use serde_json::{json, Value};
use std::collections::{BTreeMap, BTreeSet};
use std::sync::atomic::Ordering;
use std::sync::{Arc, Condvar, Mutex};
use std::time::{Duration, Instant};

pub struct C08;

/// small ordered thread identity (std's ThreadId is not Ord)
type Tid = u64;
fn my_tid() -> Tid {
    use std::sync::atomic::AtomicU64;
    static NEXT: AtomicU64 = AtomicU64::new(1);
    thread_local! { static ME: Tid = NEXT.fetch_add(1, Ordering::SeqCst); }
    ME.with(|m| *m)
}

#[derive(Clone, Copy, PartialEq, Eq, Debug)]
enum Mode {
    Free,
    Controlled,
    /// notify-only with seeded delays at Want points
    Stress(u64),
}

#[derive(Default)]
struct Model {
    vfs_writer: Option<Tid>,
    vfs_readers: Vec<Tid>,
    /// task id -> label, from SnapshotTaken to TaskEnd
    live: BTreeMap<u64, String>,
    salsa_writer_waiting: bool,
}

struct State {
    mode: Mode,
    model: Model,
    main: Option<Tid>,
    labels: BTreeMap<Tid, String>,
    task_of: BTreeMap<Tid, u64>,
    pending: BTreeMap<Tid, Event>,
    /// arrival order of the pending requests (std's RwLock prefers writers: a read request queues behind a
    /// write request that arrived before it, even while only readers hold the lock)
    arrival: BTreeMap<Tid, u64>,
    arrivals: u64,
    granted: Option<Tid>,
    running: BTreeSet<Tid>,
    task_seq: u64,
    trace: Vec<String>,
    counts: BTreeMap<String, u64>,
    max_live: usize,
    /// set when a wait-for cycle has been observed in free/stress mode
    cycle_seen: Option<String>,
    /// kernel thread ids of the server threads seen at the hooks (for the stall certificate)
    os_tid: BTreeMap<Tid, i32>,
    /// the main loop is inside a notification handler
    in_handler: bool,
}
impl State {
    fn new() -> State {
        State {
            mode: Mode::Free,
            model: Model::default(),
            main: None,
            labels: BTreeMap::new(),
            task_of: BTreeMap::new(),
            pending: BTreeMap::new(),
            arrival: BTreeMap::new(),
            arrivals: 0,
            granted: None,
            running: BTreeSet::new(),
            task_seq: 0,
            trace: Vec::new(),
            counts: BTreeMap::new(),
            max_live: 0,
            cycle_seen: None,
            os_tid: BTreeMap::new(),
            in_handler: false,
        }
    }
    fn label(&self, t: Tid) -> String {
        self.labels.get(&t).cloned().unwrap_or_else(|| if Some(t) == self.main { "main".into() } else { format!("{:?}", t) })
    }
    /// write requests on the file table that are waiting behind readers (every pending thread stands for a thread
    /// that is inside the real acquisition call)
    fn writers_queued_before(&self, t: Tid) -> Vec<Tid> {
        if self.model.vfs_readers.is_empty() {
            return vec![]; // lock free: reader and writer race, either may win
        }
        self.pending.iter().filter(|(o, e)| **o != t && matches!(e, Event::VfsWriteWant)).map(|(o, _)| *o).collect()
    }
    fn grantable_for(&self, t: Tid, e: &Event) -> bool {
        match e {
            Event::VfsWriteWant => self.model.vfs_writer.is_none() && self.model.vfs_readers.is_empty(),
            // writer preference of std::sync::RwLock (futex implementation): while readers hold the lock and a
            // writer waits, no new reader gets in
            Event::VfsReadWant => self.model.vfs_writer.is_none() && self.writers_queued_before(t).is_empty(),
            Event::SalsaWriteWant => self.model.live.is_empty(),
            _ => true,
        }
    }
    fn grantable(&self, e: &Event) -> bool {
        match e {
            Event::VfsWriteWant => self.model.vfs_writer.is_none() && self.model.vfs_readers.is_empty(),
            Event::VfsReadWant => self.model.vfs_writer.is_none(),
            Event::SalsaWriteWant => self.model.live.is_empty(),
            _ => true,
        }
    }
    /// who holds what `t` waits for (holders only, never queued waiters)
    fn holders(&self, e: &Event) -> Vec<(String, &'static str)> {
        match e {
            Event::VfsWriteWant => {
                let mut v: Vec<(String, &'static str)> = self.model.vfs_readers.iter().map(|t| (self.label(*t), "vfs")).collect();
                if let Some(w) = self.model.vfs_writer {
                    v.push((self.label(w), "vfs"));
                }
                v
            }
            Event::VfsReadWant => self.model.vfs_writer.iter().map(|w| (self.label(*w), "vfs")).collect(),
            Event::VfsReadHeld => vec![],
            Event::SalsaWriteWant => self
                .model
                .live
                .iter()
                .map(|(task, lab)| {
                    // the thread running that task, if it has started
                    let th = self.task_of.iter().find(|(_, t)| *t == task).map(|(th, _)| self.label(*th));
                    (th.unwrap_or_else(|| format!("unstarted:{}", lab)), "salsa")
                })
                .collect(),
            _ => vec![],
        }
    }
    /// a cycle in the wait-for graph of the threads that are currently waiting, if any
    fn find_cycle(&self, waiting: &BTreeMap<Tid, Event>) -> Option<String> {
        let mut edges: BTreeMap<String, Vec<(String, &'static str)>> = BTreeMap::new();
        for (t, e) in waiting {
            if !self.grantable_for(*t, e) {
                let mut h = self.holders(e);
                if matches!(e, Event::VfsReadWant) {
                    for w in self.writers_queued_before(*t) {
                        h.push((self.label(w), "vfs-queue:writer-preference"));
                    }
                }
                edges.insert(self.label(*t), h);
            }
        }
        for start in edges.keys() {
            // DFS
            let mut stack = vec![(start.clone(), vec![start.clone()], Vec::<String>::new())];
            while let Some((node, path, descr)) = stack.pop() {
                for (next, res) in edges.get(&node).cloned().unwrap_or_default() {
                    let mut d = descr.clone();
                    d.push(format!("{} -[{}]-> {}", node, res, next));
                    if &next == start {
                        let mut dd = d.clone();
                        dd.sort();
                        return Some(dd.join("; "));
                    }
                    if !path.contains(&next) && path.len() < 8 {
                        let mut p = path.clone();
                        p.push(next.clone());
                        stack.push((next, p, d));
                    }
                }
            }
        }
        None
    }
}

struct Sched {
    st: Mutex<State>,
    cv: Condvar,
    /// sessions are numbered; threads left behind by an abandoned (deadlocked) session are ignored
    epoch: std::sync::atomic::AtomicU64,
    thread_epoch: Mutex<BTreeMap<Tid, u64>>,
}
fn sched() -> &'static Arc<Sched> {
    static S: std::sync::OnceLock<Arc<Sched>> = std::sync::OnceLock::new();
    S.get_or_init(|| Arc::new(Sched { st: Mutex::new(State::new()), cv: Condvar::new(), epoch: std::sync::atomic::AtomicU64::new(0), thread_epoch: Mutex::new(BTreeMap::new()) }))
}

fn short_label(l: &str) -> String {
    if l == "()" {
        return "diagnostics".into();
    }
    l.rsplit("::").next().unwrap_or(l).trim_end_matches("Params").to_string()
}

fn install_hook() {
    let s = sched().clone();
    let log = lspdrv::hook_log();
    lsp::verif::set_hook(Some(Arc::new(move |e: &Event| {
        let tid = my_tid();
        {
            let cur = s.epoch.load(Ordering::SeqCst);
            let mut m = s.thread_epoch.lock().unwrap_or_else(|p| p.into_inner());
            if *m.entry(tid).or_insert(cur) != cur {
                return; // a thread of an earlier, abandoned session
            }
        }
        match e {
            Event::SnapshotTaken { .. } => {
                log.taken.fetch_add(1, Ordering::SeqCst);
            }
            Event::TaskEnd { .. } => {
                log.ended.fetch_add(1, Ordering::SeqCst);
            }
            _ => {}
        }
        let mut st = s.st.lock().unwrap_or_else(|p| p.into_inner());
        let name = format!("{:?}", e).split(|c| c == ' ' || c == '{').next().unwrap_or("").to_string();
        *st.counts.entry(name).or_insert(0) += 1;
        let blocking = matches!(e, Event::VfsWriteWant | Event::VfsReadWant | Event::SalsaWriteWant | Event::TaskStart { .. });
        // bookkeeping that does not depend on the mode
        st.os_tid.entry(tid).or_insert_with(|| unsafe { libc::syscall(libc::SYS_gettid) as i32 });
        match e {
            Event::SnapshotTaken { task, label } => {
                st.main = Some(tid);
                st.model.live.insert(*task, short_label(label));
                let n = st.model.live.len();
                if n > st.max_live {
                    st.max_live = n;
                }
            }
            Event::NotifExit => st.in_handler = false,
            Event::NotifEnter => {
                st.main = Some(tid);
                st.in_handler = true;
                if st.mode == Mode::Controlled {
                    st.running.insert(tid);
                }
            }
            Event::TaskStart { task } => {
                st.task_seq += 1;
                let lab = format!("task:{}#{}", st.model.live.get(task).cloned().unwrap_or_default(), st.task_seq);
                st.labels.insert(tid, lab);
                st.task_of.insert(tid, *task);
            }
            _ => {}
        }
        if blocking {
            match st.mode {
                Mode::Controlled => {
                    st.pending.insert(tid, e.clone());
                    st.arrivals += 1;
                    let a = st.arrivals;
                    st.arrival.insert(tid, a);
                    st.running.remove(&tid);
                    s.cv.notify_all();
                    while st.granted != Some(tid) && st.mode == Mode::Controlled {
                        st = s.cv.wait(st).unwrap_or_else(|p| p.into_inner());
                    }
                    st.granted = None;
                    st.pending.remove(&tid);
                    if st.mode == Mode::Controlled {
                        st.running.insert(tid);
                        let l = st.label(tid);
                        st.trace.push(format!("{}:{:?}", l, e));
                    }
                }
                Mode::Stress(seed) => {
                    // wait-for monitoring without control: record the wait, look for a cycle, inject a delay
                    st.pending.insert(tid, e.clone());
                    st.arrivals += 1;
                    let a = st.arrivals;
                    st.arrival.insert(tid, a);
                    if matches!(e, Event::SalsaWriteWant) {
                        st.model.salsa_writer_waiting = true;
                    }
                    let waiting = st.pending.clone();
                    if let Some(c) = st.find_cycle(&waiting) {
                        if st.cycle_seen.is_none() {
                            st.cycle_seen = Some(c);
                        }
                    }
                    let n = st.counts.values().sum::<u64>();
                    drop(st);
                    let r = fnv64(&[seed.to_le_bytes(), n.to_le_bytes()].concat());
                    if r % 3 == 0 {
                        std::thread::sleep(Duration::from_micros(50 + r % 3000));
                    } else if r % 3 == 1 {
                        std::thread::yield_now();
                    }
                    return;
                }
                Mode::Free => {}
            }
        }
        // stress mode: now and then a holder keeps the file table a little longer, so that the others really queue up
        // behind it inside the lock (a queued writer makes later readers wait, also those at places without a hook)
        if let (Mode::Stress(seed), Event::VfsReadHeld | Event::VfsWriteHeld) = (st.mode, e) {
            let n = st.counts.values().sum::<u64>();
            let r = fnv64(&[seed.to_le_bytes(), n.to_le_bytes(), [7u8; 8]].concat());
            if r % 4 == 0 {
                drop(st);
                std::thread::sleep(Duration::from_micros(100 + r % 2500));
                st = s.st.lock().unwrap_or_else(|p| p.into_inner());
            }
        }
        // lock model updates (after the acquisition has really happened / been released)
        match e {
            Event::VfsWriteHeld => {
                st.model.vfs_writer = Some(tid);
                st.pending.remove(&tid);
            }
            Event::VfsWriteReleased => st.model.vfs_writer = None,
            Event::VfsReadHeld => {
                st.model.vfs_readers.push(tid);
                st.pending.remove(&tid);
            }
            Event::VfsReadReleased => {
                if let Some(i) = st.model.vfs_readers.iter().position(|t| *t == tid) {
                    st.model.vfs_readers.remove(i);
                }
            }
            Event::SalsaWriteDone => {
                st.model.salsa_writer_waiting = false;
                st.pending.remove(&tid);
            }
            Event::TaskEnd { task } => {
                st.model.live.remove(task);
                st.running.remove(&tid);
                st.task_of.remove(&tid);
                st.pending.remove(&tid);
            }
            Event::NotifExit => {
                st.running.remove(&tid);
            }
            _ => {}
        }
        // in stress mode a release may be what a recorded waiter needed; re-check for cycles on every event
        if let Mode::Stress(_) = st.mode {
            let waiting = st.pending.clone();
            if let Some(c) = st.find_cycle(&waiting) {
                if st.cycle_seen.is_none() {
                    st.cycle_seen = Some(c);
                }
            }
        }
        s.cv.notify_all();
    })));
}

fn new_epoch() {
    let s = sched();
    s.epoch.fetch_add(1, Ordering::SeqCst);
    // counters of the quiescence helper start afresh too
    let log = lspdrv::hook_log();
    log.taken.store(0, Ordering::SeqCst);
    log.ended.store(0, Ordering::SeqCst);
}
fn reset(mode: Mode) {
    let s = sched();
    let mut st = s.st.lock().unwrap_or_else(|p| p.into_inner());
    let counts = std::mem::take(&mut st.counts);
    let max_live = st.max_live;
    *st = State::new();
    st.counts = counts;
    st.max_live = max_live;
    st.mode = mode;
    s.cv.notify_all();
}
fn set_mode(mode: Mode) {
    let s = sched();
    let mut st = s.st.lock().unwrap_or_else(|p| p.into_inner());
    st.mode = mode;
    s.cv.notify_all();
}

const SETTLE_WATCHDOG: Duration = Duration::from_secs(12);

/// (state letter, number of the system call the thread is blocked in, context switches so far) of one thread of this process
fn thread_sample(os: i32) -> Option<(char, String, u64)> {
    let status = std::fs::read_to_string(format!("/proc/self/task/{}/status", os)).ok()?;
    let mut state = '?';
    let mut sw = 0u64;
    for l in status.lines() {
        if let Some(r) = l.strip_prefix("State:") {
            state = r.trim().chars().next().unwrap_or('?');
        } else if let Some(r) = l.strip_prefix("voluntary_ctxt_switches:").or_else(|| l.strip_prefix("nonvoluntary_ctxt_switches:")) {
            sw += r.trim().parse::<u64>().unwrap_or(0);
        }
    }
    let sc = std::fs::read_to_string(format!("/proc/self/task/{}/syscall", os)).ok()?;
    Some((state, sc.split_whitespace().next().unwrap_or("?").to_string(), sw))
}

/// Stall certificate, used when the server stopped making progress although the wait-for graph over the hooked
/// acquisition points shows no cycle (a lock taken at a place without a hook). Called with the scheduler in Free
/// mode, so no server thread is held back by the monitor. The verdict does not rest on elapsed time: the main loop
/// must be inside a handler, every live snapshot task must have a started thread, and each of these threads must be
/// asleep in a futex wait, in the same wait (no context switch in between) at two samples - i.e. every thread that
/// could release what the others wait for is itself blocked; and every other thread of the process (runtime workers,
/// helper threads of any kind) is asleep in an unchanged wait too, so nothing anywhere is running on the server's
/// behalf. With no live task at all this is the main loop waiting for something only it could release.
/// Anything else is no certificate (None).
fn stall_certificate() -> Option<String> {
    match stall_certificate_why() {
        Ok(c) => Some(c),
        Err(why) => match polling_stall_certificate() {
            Ok(c) => Some(c),
            Err(why2) => {
                *LAST_NO_CERT.lock().unwrap_or_else(|p| p.into_inner()) = format!("{}; nor a polling stall: {}", why, why2);
                None
            }
        },
    }
}
/// CPU ticks (utime + stime) a thread of this process has used
fn thread_cpu_ticks(os: i32) -> Option<u64> {
    let stat = std::fs::read_to_string(format!("/proc/self/task/{}/stat", os)).ok()?;
    let after = stat.rsplit(')').next()?;
    let f: Vec<&str> = after.split_whitespace().collect();
    Some(f.get(11)?.parse::<u64>().ok()? + f.get(12)?.parse::<u64>().ok()?)
}
/// The stall that polls: some thread sleeps in a timed wait and looks again (`while !ready { sleep(1ms) }`), so its
/// context-switch count moves although nothing happens. Certificate: over six samples one second apart the main loop
/// stays inside the same handler, every thread of the process (but the harness' own two) is asleep at all samples
/// but at most one, all of them together used less than 5% of one core, and not a single hook event occurred. Nothing is computing and
/// nothing the monitor can see has happened; the client owes nothing.
fn polling_stall_certificate() -> Result<String, String> {
    let me = unsafe { libc::syscall(libc::SYS_gettid) as i32 };
    let events = |st: &State| st.counts.values().sum::<u64>();
    let (ev0, live0) = {
        let st = sched().st.lock().unwrap_or_else(|p| p.into_inner());
        if !st.in_handler {
            return Err("the main loop is not inside a handler".into());
        }
        (events(&st), st.model.live.len())
    };
    let all: Vec<i32> = std::fs::read_dir("/proc/self/task").map_err(|e| e.to_string())?.flatten().filter_map(|e| e.file_name().to_string_lossy().parse::<i32>().ok()).filter(|t| *t != me && *t != std::process::id() as i32).collect();
    let cpu0: u64 = all.iter().filter_map(|t| thread_cpu_ticks(*t)).sum();
    let mut awake: BTreeMap<i32, u32> = BTreeMap::new();
    for _ in 0..6 {
        for t in &all {
            match thread_sample(*t) {
                Some((s, _, _)) if s == 'S' => {}
                Some(_) => *awake.entry(*t).or_insert(0) += 1,
                None => {}
            }
        }
        std::thread::sleep(Duration::from_secs(1));
    }
    // (a thread that wakes a thousand times a second to look at a flag is caught awake now and then)
    if let Some((t, n)) = awake.iter().find(|(_, n)| **n > 1) {
        return Err(format!("thread {} was awake at {} of 6 samples", t, n));
    }
    let cpu1: u64 = all.iter().filter_map(|t| thread_cpu_ticks(*t)).sum();
    let st = sched().st.lock().unwrap_or_else(|p| p.into_inner());
    if !st.in_handler || events(&st) != ev0 || st.model.live.len() != live0 {
        return Err("hook events occurred while sampling".into());
    }
    // 6 s of one busy core are 600 ticks; waking up to look at a flag every millisecond costs a few ticks
    if cpu1 > cpu0 + 30 {
        return Err(format!("the server's threads used {} CPU ticks while sampling", cpu1 - cpu0));
    }
    Ok(format!("main loop inside a handler, {} live snapshot task(s); all {} threads asleep at (nearly) all of six samples over 6 s, less than 5% of one core used by all of them together, no hook event: threads wake up and go back to sleep without anything happening (a polling wait for something only another waiting thread can provide)", live0, all.len()))
}
static LAST_NO_CERT: Mutex<String> = Mutex::new(String::new());
fn stall_certificate_why() -> Result<String, String> {
    std::thread::sleep(Duration::from_millis(300));
    let me = unsafe { libc::syscall(libc::SYS_gettid) as i32 };
    let (main_os, named): (i32, BTreeMap<i32, String>) = {
        let st = sched().st.lock().unwrap_or_else(|p| p.into_inner());
        if !st.in_handler {
            return Err("the main loop is not inside a handler".into());
        }
        let m = st.main.ok_or("main loop thread unknown")?;
        let mut named = BTreeMap::new();
        named.insert(*st.os_tid.get(&m).ok_or("no os tid for main")?, "main".to_string());
        for task in st.model.live.keys() {
            let th = st.task_of.iter().find(|(_, t)| *t == task).map(|(th, _)| *th).ok_or("a live task has not started")?;
            named.insert(*st.os_tid.get(&th).ok_or("no os tid for a task thread")?, st.label(th));
        }
        (*st.os_tid.get(&m).ok_or("no os tid for main")?, named)
    };
    // every thread of this process except the sampler: server threads, runtime workers, helper threads of any kind
    let all: Vec<i32> = std::fs::read_dir("/proc/self/task").map_err(|e| e.to_string())?.flatten().filter_map(|e| e.file_name().to_string_lossy().parse::<i32>().ok()).filter(|t| *t != me && *t != std::process::id() as i32).collect(); // (the process' main thread is the harness' unit runner, polling for the unit's end)
    let a: Vec<_> = all.iter().map(|os| thread_sample(*os)).collect();
    std::thread::sleep(Duration::from_millis(700));
    let b: Vec<_> = all.iter().map(|os| thread_sample(*os)).collect();
    let mut desc = Vec::new();
    let mut idle_others = 0;
    for (i, os) in all.iter().enumerate() {
        match (&a[i], &b[i]) {
            (Some(x), Some(y)) if x == y && x.0 == 'S' => {
                let futex = x.1 == libc::SYS_futex.to_string();
                match named.get(os) {
                    Some(name) if futex => desc.push(format!("{} asleep in futex wait", name)),
                    Some(name) => return Err(format!("{} waits in system call {} (not a futex wait)", name, x.1)),
                    None => idle_others += 1,
                }
            }
            other => return Err(format!("thread {} ({}) is not in an unchanged sleep: {:?}", os, named.get(os).cloned().unwrap_or_else(|| std::fs::read_to_string(format!("/proc/self/task/{}/comm", os)).unwrap_or_default().trim().to_string()), other)),
        }
    }
    if !named.keys().all(|os| all.contains(os)) || !all.contains(&main_os) {
        return Err("a server thread is gone".into());
    }
    // the picture must still be the same set of live tasks
    let st = sched().st.lock().unwrap_or_else(|p| p.into_inner());
    if !st.in_handler || st.model.live.len() + 1 != named.len() {
        return Err("the set of live tasks changed while sampling".into());
    }
    desc.sort();
    Ok(format!("{}; the {} other threads of the process are idle", desc.join(", "), idle_others))
}
const STALL: &str = "every live server thread is blocked outside the hooked acquisition points";

/// wait until every controlled thread is blocked at a decision point or done
fn wait_settled(extra: impl Fn(&State) -> bool) -> bool {
    let s = sched();
    let deadline = Instant::now() + SETTLE_WATCHDOG;
    let mut st = s.st.lock().unwrap_or_else(|p| p.into_inner());
    loop {
        let tasks_accounted = st.model.live.keys().all(|t| st.task_of.iter().any(|(th, tt)| tt == t && (st.pending.contains_key(th) || false)));
        if st.running.is_empty() && st.granted.is_none() && tasks_accounted && extra(&st) {
            return true;
        }
        let left = deadline.saturating_duration_since(Instant::now());
        if left.is_zero() {
            return false;
        }
        let (g, _) = s.cv.wait_timeout(st, left.min(Duration::from_millis(50))).unwrap_or_else(|p| p.into_inner());
        st = g;
    }
}

#[derive(Clone, Copy, Debug, PartialEq, Eq)]
enum TaskKind {
    Diagnostics,
    Hover,
    Definition,
    References,
    DocumentSymbol,
    InlayHint,
    Completion,
    DocumentLink,
    FoldingRange,
}
const TASKS: [TaskKind; 9] = [
    TaskKind::Diagnostics,
    TaskKind::Hover,
    TaskKind::Definition,
    TaskKind::References,
    TaskKind::DocumentSymbol,
    TaskKind::InlayHint,
    TaskKind::Completion,
    TaskKind::DocumentLink,
    TaskKind::FoldingRange,
];
#[derive(Clone, Copy, Debug, PartialEq, Eq)]
enum Handler {
    DidChangeRoot,
    DidOpenOther,
    DidChangeIncluded,
    /// a change that carries exactly the text the server already has (undo / re-opened tab)
    DidChangeRootSameText,
}

const A_TEXT: &str = "include \"b.td\"\nclass A<int x> : B<x> { int f = x; }\ndef d : A<1> { let g = 2; }\n";
const B_TEXT: &str = "class B<int y> { int g = y; }\n";

fn send_task(s: &mut Session, k: TaskKind, version: &mut i64) -> Option<u64> {
    let td = json!({"uri": s.uri("/ws/a.td")});
    let pos = json!({"line": 2, "character": 9});
    Some(match k {
        TaskKind::Diagnostics => {
            *version += 1;
            // (the edit brings a file into the workspace that the server has never told the editor about)
            s.did_change("/ws/a.td", *version, &format!("{}include \"c.td\"\n// v{}\n", A_TEXT, version));
            return None;
        }
        TaskKind::Hover => s.request("textDocument/hover", json!({"textDocument": td, "position": pos})),
        TaskKind::Definition => s.request("textDocument/definition", json!({"textDocument": td, "position": pos})),
        TaskKind::References => s.request("textDocument/references", json!({"textDocument": td, "position": pos, "context": {"includeDeclaration": true}})),
        TaskKind::DocumentSymbol => s.request("textDocument/documentSymbol", json!({"textDocument": td})),
        TaskKind::InlayHint => s.request("textDocument/inlayHint", json!({"textDocument": td, "range": {"start": {"line": 0, "character": 0}, "end": {"line": 3, "character": 0}}})),
        TaskKind::Completion => s.request("textDocument/completion", json!({"textDocument": td, "position": pos})),
        TaskKind::DocumentLink => s.request("textDocument/documentLink", json!({"textDocument": td})),
        TaskKind::FoldingRange => s.request("textDocument/foldingRange", json!({"textDocument": td})),
    })
}

enum Outcome {
    Completed,
    Deadlock(String, String),
    NoResponse(String),
    Watchdog(String),
}
struct Run {
    decisions: Vec<(usize, usize)>,
    outcome: Outcome,
    trace: Vec<String>,
}

fn run_schedule(handler: Handler, tasks: &[TaskKind], prefix: &[usize]) -> Run {
    install_hook();
    new_epoch();
    reset(Mode::Free);
    let s_ = sched();
    let mut sess = Session::start("C08");
    sess.write_disk("/ws/a.td", A_TEXT);
    sess.write_disk("/ws/b.td", B_TEXT);
    sess.write_disk("/ws/c.td", "class C;\n");
    sess.did_open("/ws/a.td", A_TEXT);
    if handler == Handler::DidChangeIncluded {
        sess.did_open("/ws/b.td", B_TEXT);
        sess.did_open("/ws/a.td", A_TEXT);
    }
    let mut decisions = Vec::new();
    if !sess.quiesce(SETTLE_WATCHDOG) {
        let o = match stall_certificate() {
            Some(c) => Outcome::Deadlock(STALL.into(), format!("while the scenario's documents were being opened (no task of the scenario in flight yet): {}", c)),
            None => Outcome::Watchdog("setup did not quiesce".into()),
        };
        let r = Run { decisions, outcome: o, trace: vec![] };
        sess.abandon();
        return r;
    }
    reset(Mode::Controlled);
    let mut version = 1i64;
    let mut request_ids = Vec::new();
    // bring the in-flight tasks to their TaskStart point (the main loop runs unopposed while doing so)
    for (i, k) in tasks.iter().enumerate() {
        let before = { s_.st.lock().unwrap_or_else(|p| p.into_inner()).task_seq };
        if let Some(id) = send_task(&mut sess, *k, &mut version) {
            request_ids.push(id);
        }
        // let the main loop through its own acquisitions until the new task waits at TaskStart
        let deadline = Instant::now() + SETTLE_WATCHDOG;
        loop {
            let mut st = s_.st.lock().unwrap_or_else(|p| p.into_inner());
            if st.task_seq > before && st.running.is_empty() && st.main.map(|m| !st.pending.contains_key(&m)).unwrap_or(true) {
                break;
            }
            if let Some(m) = st.main {
                if st.pending.contains_key(&m) && st.granted.is_none() {
                    let e = st.pending.get(&m).cloned().unwrap();
                    if st.grantable(&e) {
                        st.granted = Some(m);
                        s_.cv.notify_all();
                    } else {
                        // even the set-up deadlocks (a task is already in flight): report it as a schedule
                        let waiting = st.pending.clone();
                        let cyc = st.find_cycle(&waiting).unwrap_or_else(|| "main waits for a resource held by a task that has not started".into());
                        drop(st);
                        let tr = s_.st.lock().unwrap().trace.clone();
                        set_mode(Mode::Free);
                        sess.abandon();
                        return Run { decisions, outcome: Outcome::Deadlock(cyc.clone(), format!("while bringing task {} ({:?}) in flight: {}", i, k, cyc)), trace: tr };
                    }
                }
            }
            if Instant::now() > deadline {
                drop(st);
                set_mode(Mode::Free);
                let o = match stall_certificate() {
                    Some(c) => Outcome::Deadlock(STALL.into(), format!("while bringing task {:?} in flight: {}", k, c)),
                    None => Outcome::Watchdog(format!("task {:?} never reached its start point", k)),
                };
                sess.abandon();
                return Run { decisions, outcome: o, trace: vec![] };
            }
            let (g, _) = s_.cv.wait_timeout(st, Duration::from_millis(20)).unwrap_or_else(|p| p.into_inner());
            drop(g);
        }
    }
    // the handler under test
    match handler {
        Handler::DidChangeRoot => {
            version += 1;
            sess.did_change("/ws/a.td", version, &format!("{}class Extra{};\n", A_TEXT, version));
        }
        Handler::DidChangeRootSameText => {
            version += 1;
            let same = if tasks.contains(&TaskKind::Diagnostics) { format!("{}// v{}\n", A_TEXT, 2) } else { A_TEXT.to_string() };
            sess.did_change("/ws/a.td", version, &same);
        }
        Handler::DidOpenOther => sess.did_open("/ws/c.td", "class C;\ndef c : C;\n"),
        Handler::DidChangeIncluded => sess.did_change("/ws/b.td", 2, &format!("{}class B2;\n", B_TEXT)),
    }
    if !wait_settled(|st| st.main.map(|m| st.pending.contains_key(&m)).unwrap_or(false)) {
        set_mode(Mode::Free);
        let o = match stall_certificate() {
            Some(c) => Outcome::Deadlock(STALL.into(), format!("before the handler's first hooked acquisition: {}", c)),
            None => Outcome::Watchdog("handler never reached its first acquisition".into()),
        };
        sess.abandon();
        return Run { decisions, outcome: o, trace: vec![] };
    }
    // exploration
    let outcome;
    loop {
        if !wait_settled(|_| true) {
            outcome = Outcome::Watchdog("a granted thread did not reach its next event (model and real locks disagree?)".into());
            break;
        }
        let mut st = s_.st.lock().unwrap_or_else(|p| p.into_inner());
        if st.pending.is_empty() {
            outcome = Outcome::Completed;
            break;
        }
        let mut options: Vec<(String, Tid)> = st.pending.iter().filter(|(t, e)| st.grantable_for(**t, e)).map(|(t, _)| (st.label(*t), *t)).collect();
        options.sort();
        if options.is_empty() {
            let waiting = st.pending.clone();
            let cyc = st.find_cycle(&waiting).unwrap_or_else(|| "no thread can be granted".into());
            let detail = format!(
                "threads waiting: {:?}; cycle: {}",
                st.pending.iter().map(|(t, e)| format!("{} at {:?}", st.label(*t), e)).collect::<Vec<_>>(),
                cyc
            );
            outcome = Outcome::Deadlock(cyc, detail);
            break;
        }
        let i = decisions.len();
        let c = prefix.get(i).copied().unwrap_or(0).min(options.len() - 1);
        decisions.push((c, options.len()));
        st.granted = Some(options[c].1);
        s_.cv.notify_all();
    }
    let trace = s_.st.lock().unwrap_or_else(|p| p.into_inner()).trace.clone();
    set_mode(Mode::Free);
    let outcome = match outcome {
        Outcome::Watchdog(m) => match stall_certificate() {
            Some(c) => Outcome::Deadlock(STALL.into(), format!("after the grant sequence: {}", c)),
            None => Outcome::Watchdog(m),
        },
        o => o,
    };
    match outcome {
        Outcome::Completed => {
            // every request answered, the handler's diagnostics published
            let mut missing = None;
            for id in &request_ids {
                if sess.wait_response(*id, SETTLE_WATCHDOG).is_none() {
                    missing = Some(format!("request {} got no response", id));
                }
            }
            if !sess.quiesce(SETTLE_WATCHDOG) && missing.is_none() {
                missing = Some("server did not become idle after the schedule".into());
            }
            let r = Run { decisions, outcome: match missing { Some(m) => Outcome::NoResponse(m), None => Outcome::Completed }, trace };
            sess.shutdown();
            r
        }
        o => {
            sess.abandon();
            Run { decisions, outcome: o, trace }
        }
    }
}

fn scenario_json(handler: Handler, tasks: &[TaskKind], prefix: &[usize]) -> Value {
    json!({"kind": "schedule", "handler": format!("{:?}", handler), "tasks": tasks.iter().map(|t| format!("{:?}", t)).collect::<Vec<_>>(), "choices": prefix})
}

fn explore(handler: Handler, tasks: &[TaskKind], ctx: &mut Ctx, max_schedules: usize) {
    let mut prefix: Vec<usize> = Vec::new();
    let mut n = 0;
    loop {
        ctx.current_json(&scenario_json(handler, tasks, &prefix));
        let run = run_schedule(handler, tasks, &prefix);
        n += 1;
        ctx.eval();
        ctx.feature("schedules");
        ctx.feature(&format!("handler:{:?}", handler));
        for t in tasks {
            ctx.feature(&format!("task:{:?}", t));
        }
        ctx.nontrivial(fnv64(format!("{:?}{:?}{:?}", handler, tasks, run.trace).as_bytes()));
        ctx.metric_max("decisions_per_schedule_max", run.decisions.len() as f64);
        let choices: Vec<usize> = run.decisions.iter().map(|d| d.0).collect();
        match &run.outcome {
            Outcome::Completed => {
                if ctx.want_sample() && run.trace.len() > 4 {
                    ctx.sample(json!({"handler": format!("{:?}", handler), "tasks": tasks.iter().map(|t| format!("{:?}", t)).collect::<Vec<_>>(), "grant_sequence": run.trace}));
                }
            }
            Outcome::Deadlock(cycle, detail) => {
                let kinds: Vec<String> = tasks.iter().map(|t| format!("{:?}", t)).collect();
                ctx.violation(
                    format!("deadlock:{:?}:{}", handler, squash_cycle(cycle)),
                    format!("handler {:?} against in-flight {:?}: {} (grant sequence {:?})", handler, kinds, detail, run.trace),
                    scenario_json(handler, tasks, &choices),
                );
            }
            Outcome::NoResponse(m) => {
                ctx.violation(format!("no-progress:{:?}", handler), format!("schedule completed but {}", m), scenario_json(handler, tasks, &choices));
            }
            Outcome::Watchdog(m) => {
                ctx.feature("watchdog");
                ctx.note(format!("watchdog (no verdict): {}; no stall certificate because {}", m, LAST_NO_CERT.lock().unwrap_or_else(|p| p.into_inner())));
                return;
            }
        }
        if matches!(&run.outcome, Outcome::Deadlock(c, _) if c == STALL) {
            return; // every further schedule of this scenario would pay the same wait
        }
        // next prefix (stateless DFS)
        let mut d = run.decisions.clone();
        loop {
            match d.pop() {
                None => return,
                Some((c, k)) => {
                    if c + 1 < k {
                        prefix = d.iter().map(|x| x.0).collect();
                        prefix.push(c + 1);
                        break;
                    }
                }
            }
        }
        if n >= max_schedules {
            ctx.feature("scenario_truncated");
            return;
        }
    }
}

/// cycle description with task numbers erased (signature material)
fn squash_cycle(c: &str) -> String {
    let mut out = String::new();
    let mut skip = false;
    for ch in c.chars() {
        if ch == '#' {
            skip = true;
            continue;
        }
        if skip && ch.is_ascii_digit() {
            continue;
        }
        skip = false;
        out.push(ch);
    }
    out
}

fn stress(unit: u64, rep: u64, ctx: &mut Ctx) {
    install_hook();
    let unit = unit * 16 + rep; // every repetition is a session of its own
    let seed = ctx.seed ^ unit.wrapping_mul(0x9E37);
    new_epoch();
    reset(Mode::Stress(seed));
    let mut rng = Rng::derive(ctx.seed, 0x8888, unit);
    let mut sess = Session::start("C08s");
    // a workspace whose analysis takes a few milliseconds
    let mut big = String::from("include \"b.td\"\n");
    for i in 0..rng.range(50, 400) {
        big.push_str(&format!("class K{}<int p> : B<p> {{ int f{} = !add(p, {}); }}\ndef d{} : K{}<{}>;\n", i, i, i, i, i, i));
    }
    sess.write_disk("/ws/a.td", &big);
    sess.write_disk("/ws/b.td", B_TEXT);
    sess.did_open("/ws/a.td", &big);
    let mut version = 1;
    let mut ids = Vec::new();
    let n = ctx.tier.pick(40, 120);
    let mut history = Vec::new();
    for _ in 0..n {
        match rng.below(10) {
            0..=3 => {
                version += 1;
                // every third edit brings a file into the workspace that the server has never seen before
                let t = if version % 3 == 0 {
                    let name = format!("x{}.td", version);
                    sess.write_disk(&format!("/ws/{}", name), &format!("class X{} {{ int xf = {}; }}\ndef xd{} : X{};\n", version, version, version, version));
                    history.push(format!("didChange(a)+include {}", name));
                    format!("{}include \"{}\"\n// edit {}\n", big, name, version)
                } else {
                    history.push("didChange(a)".to_string());
                    format!("{}// edit {}\n", big, version)
                };
                sess.did_change("/ws/a.td", version, &t);
            }
            4 => {
                sess.did_open("/ws/b.td", B_TEXT);
                history.push("didOpen(b)".to_string());
                version += 1;
                sess.did_change("/ws/a.td", version, &big);
                history.push("didChange(a)".to_string());
            }
            k => {
                let kind = TASKS[1 + (k as usize + rng.below(8)) % 8];
                if let Some(id) = send_task_at(&mut sess, kind, rng.below(40) as u64) {
                    ids.push(id);
                }
                history.push(format!("{:?}", kind));
            }
        }
        if rng.chance(1, 4) {
            sess.pump(Duration::from_micros(200));
        }
    }
    ctx.eval();
    ctx.feature("stress_sessions");
    ctx.feature_n("stress_messages", n as u64);
    ctx.nontrivial(fnv64(format!("{:?}{}", history, seed).as_bytes()));
    // progress: every request answered, then idle; decided by the wait-for monitor, the watchdog alone is no verdict
    let mut unanswered = 0;
    let deadline = Instant::now() + Duration::from_secs(30);
    for id in &ids {
        let left = deadline.saturating_duration_since(Instant::now());
        if sess.wait_response(*id, left.max(Duration::from_millis(10))).is_none() {
            unanswered += 1;
        }
    }
    let idle = unanswered == 0 && sess.quiesce(Duration::from_secs(30));
    let (cycle, waiting) = {
        let st = sched().st.lock().unwrap_or_else(|p| p.into_inner());
        let w = st.pending.clone();
        (st.cycle_seen.clone().or_else(|| st.find_cycle(&w)), st.pending.iter().map(|(t, e)| format!("{} at {:?}", st.label(*t), e)).collect::<Vec<_>>())
    };
    let case = json!({"kind": "stress", "unit": unit, "history": history});
    if !idle {
        match cycle {
            Some(c) => ctx.violation(
                format!("deadlock:stress:{}", squash_cycle(&c)),
                format!("{} request(s) unanswered / server not idle; wait-for cycle: {}; waiting: {:?}", unanswered, c, waiting),
                case,
            ),
            None => {
                set_mode(Mode::Free);
                match stall_certificate() {
                    Some(c) => ctx.violation(
                        "deadlock:stress:stall-outside-hooked-points",
                        format!("{} request(s) unanswered / server not idle; {}: {}", unanswered, STALL, c),
                        case,
                    ),
                    None => {
                        ctx.feature("watchdog");
                        ctx.note(format!("stress session stalled without a wait-for cycle at the hooked points (no verdict); waiting: {:?}; no stall certificate because {}", waiting, LAST_NO_CERT.lock().unwrap_or_else(|p| p.into_inner())));
                    }
                }
            }
        }
        set_mode(Mode::Free);
        sess.abandon();
    } else {
        for p in take_foreign_panics() {
            ctx.violation(format!("server-thread-{}", p.signature()), format!("a server thread panicked during stress: {} at {}", p.message, p.location), case.clone());
        }
        set_mode(Mode::Free);
        sess.shutdown();
    }
}

// ------------------------------------------------------------------------------------------------ the shipped binary
/// Request bursts against the server AS SHIPPED: the `lsp` binary built from the working tree (crates/lsp/src/main.rs
/// with its whole middleware stack), spoken to over stdio, pinned to 1..16 CPUs (the stack's concurrency limit follows
/// the number of CPUs it may use). After the opening handshake a burst of N requests - optionally with an edit in the
/// middle - is written in one piece; every request must be answered. A stall is decided by a certificate, not by
/// time: every thread of the server process is asleep, in the same wait, with no CPU time used between two samples,
/// while the client has nothing left to send and owes no reply.
fn binary_burst(unit: u64, k: u64, ctx: &mut Ctx) {
    let mut rng = Rng::derive(ctx.seed, 0x8b00, unit * 100 + k);
    let cpus = [1usize, 2, 3, 4, 8, 16][rng.below(6)];
    let mut burst = match rng.below(6) {
        0 => cpus,
        1 => cpus + 1,
        2 => 2 * cpus + 1,
        3 => 4 * cpus + 3,
        4 => 64,
        _ => rng.range(1, 200),
    };
    let mut with_edit = rng.chance(1, 3);
    let mut n_defs = [50usize, 400, 1500][rng.below(3)];
    // one burst per unit is a pile-up: an edit of a big document followed at once by hundreds of requests, which all
    // wait for the same re-analysis (the requests in flight then number in the hundreds, whatever the CPU count)
    if k == 0 && unit % 2 == 0 {
        burst = [600usize, 800, 1100][rng.below(3)];
        with_edit = true;
        n_defs = 20000;
    }
    run_burst(cpus, burst, with_edit, n_defs, rng.next(), ctx);
}
fn run_burst(cpus: usize, burst: usize, with_edit: bool, n_defs: usize, rng_seed: u64, ctx: &mut Ctx) {
    use std::io::{Read, Write};
    use std::process::{Command, Stdio};
    let exe = format!("{}/target/release/lsp", crate::core::VERIF_ROOT);
    if !std::path::Path::new(&exe).exists() {
        ctx.feature("watchdog");
        ctx.note("the lsp binary has not been built (./check builds it): no verdict for the request-burst units");
        return;
    }
    let mut rng = Rng::derive(rng_seed, 0x8b01, 0);
    static BURSTS: std::sync::atomic::AtomicU64 = std::sync::atomic::AtomicU64::new(0);
    let dir = format!("{}/target/work/lsp/C08bin.{}.{}", crate::core::VERIF_ROOT, std::process::id(), BURSTS.fetch_add(1, Ordering::SeqCst));
    let _ = std::fs::remove_dir_all(&dir);
    let _ = std::fs::create_dir_all(&dir);
    let mut text = String::from("class A<int x> { int f = x; }\n");
    for i in 0..n_defs {
        text.push_str(&format!("def d{} : A<{}> {{ let f = {}; }}\n", i, i, i));
    }
    let _ = std::fs::write(format!("{}/a.td", dir), &text);
    let uri = format!("file://{}/a.td", dir);
    let case = json!({"kind": "binary_burst", "cpus": cpus, "burst": burst, "with_edit": with_edit, "defs": n_defs, "rng_seed": rng_seed.to_string()});
    ctx.current_json(&case);
    let child = Command::new("taskset").args(["-c", &format!("0-{}", cpus - 1), &exe]).stdin(Stdio::piped()).stdout(Stdio::piped()).stderr(Stdio::null()).spawn();
    let Ok(mut child) = child else {
        ctx.feature("watchdog");
        ctx.note("could not start the lsp binary under taskset: no verdict");
        return;
    };
    let stdin = Arc::new(Mutex::new(child.stdin.take().unwrap()));
    let mut stdout = child.stdout.take().unwrap();
    let pid = child.id();
    let (tx, rx) = std::sync::mpsc::channel::<Value>();
    let reader = std::thread::spawn(move || {
        let mut buf: Vec<u8> = Vec::new();
        let mut chunk = vec![0u8; 65536];
        loop {
            loop {
                let Some(hend) = buf.windows(4).position(|w| w == b"\r\n\r\n") else { break };
                let header = String::from_utf8_lossy(&buf[..hend]).to_string();
                let len = header.lines().find_map(|l| l.strip_prefix("Content-Length:").map(|v| v.trim().parse::<usize>().unwrap_or(0))).unwrap_or(0);
                if buf.len() < hend + 4 + len {
                    break;
                }
                let body: Vec<u8> = buf[hend + 4..hend + 4 + len].to_vec();
                buf.drain(..hend + 4 + len);
                if let Ok(v) = serde_json::from_slice::<Value>(&body) {
                    if tx.send(v).is_err() {
                        return;
                    }
                }
            }
            match stdout.read(&mut chunk) {
                Ok(0) | Err(_) => return,
                Ok(n) => buf.extend_from_slice(&chunk[..n]),
            }
        }
    });
    let frame = |v: &Value| {
        let b = v.to_string();
        format!("Content-Length: {}\r\n\r\n{}", b.len(), b).into_bytes()
    };
    let mut answered: BTreeSet<u64> = BTreeSet::new();
    let mut published = 0u64;
    let mut owed_replies = 0u64; // server-to-client requests are answered at once, so this stays 0
    let mut pump = |answered: &mut BTreeSet<u64>, published: &mut u64, stdin: &Arc<Mutex<std::process::ChildStdin>>, wait: Duration| -> bool {
        match rx.recv_timeout(wait) {
            Ok(v) => {
                if v.get("method").is_some() && v.get("id").is_some() {
                    // (the server as shipped asks its client nothing; if the burst writer holds the pipe the reply waits)
                    if let Ok(mut g) = stdin.try_lock() {
                        let _ = g.write_all(&frame(&json!({"jsonrpc": "2.0", "id": v["id"], "result": Value::Null})));
                        let _ = g.flush();
                    }
                } else if v.get("method").is_some() {
                    if v["method"] == "textDocument/publishDiagnostics" {
                        *published += 1;
                    }
                } else if let Some(id) = v["id"].as_u64() {
                    answered.insert(id);
                }
                true
            }
            Err(_) => false,
        }
    };
    let _ = owed_replies;
    owed_replies = 0;
    // handshake and opening
    {
        let mut g = stdin.lock().unwrap_or_else(|p| p.into_inner());
        let _ = g.write_all(&frame(&json!({"jsonrpc": "2.0", "id": 0, "method": "initialize", "params": {"processId": Value::Null, "rootUri": Value::Null, "capabilities": {}}})));
        let _ = g.flush();
    }
    let t0 = Instant::now();
    while !answered.contains(&0) && t0.elapsed() < SETTLE_WATCHDOG {
        pump(&mut answered, &mut published, &stdin, Duration::from_millis(50));
    }
    let mut opening = Vec::new();
    opening.extend(frame(&json!({"jsonrpc": "2.0", "method": "initialized", "params": {}})));
    opening.extend(frame(&json!({"jsonrpc": "2.0", "method": "textDocument/didOpen", "params": {"textDocument": {"uri": uri, "languageId": "tablegen", "version": 1, "text": text}}})));
    {
        let mut g = stdin.lock().unwrap_or_else(|p| p.into_inner());
        let _ = g.write_all(&opening);
        let _ = g.flush();
    }
    let t0 = Instant::now();
    while published == 0 && t0.elapsed() < SETTLE_WATCHDOG {
        pump(&mut answered, &mut published, &stdin, Duration::from_millis(50));
    }
    let ready = answered.contains(&0) && published > 0;
    // the burst: written frame after frame by a thread of its own (if the server stops reading, the pipe fills up and
    // the writer blocks - the client must not block with it)
    let mut blob: Vec<Vec<u8>> = Vec::new();
    let methods = ["textDocument/hover", "textDocument/definition", "textDocument/references", "textDocument/documentSymbol", "textDocument/inlayHint", "textDocument/completion", "textDocument/documentLink", "textDocument/foldingRange"];
    let mut first = rng.below(8);
    let mut uniform = rng.chance(1, 2);
    if burst >= 500 {
        // pile-ups use the cheapest request kind: what matters is how many are in flight, not what they compute
        first = 0;
        uniform = true;
    }
    for i in 0..burst {
        let m = methods[if uniform { first } else { (first + i) % 8 }];
        let line = 1 + rng.below(n_defs) as u64;
        let td = json!({"uri": uri});
        let params = match m {
            "textDocument/documentSymbol" | "textDocument/documentLink" | "textDocument/foldingRange" => json!({"textDocument": td}),
            "textDocument/inlayHint" => json!({"textDocument": td, "range": {"start": {"line": 0, "character": 0}, "end": {"line": line + 20, "character": 0}}}),
            "textDocument/references" => json!({"textDocument": td, "position": {"line": line, "character": 10}, "context": {"includeDeclaration": true}}),
            _ => json!({"textDocument": td, "position": {"line": line, "character": 10}}),
        };
        if with_edit && burst >= 500 && i == 0 {
            blob.push(frame(&json!({"jsonrpc": "2.0", "method": "textDocument/didChange", "params": {"textDocument": {"uri": uri, "version": 2}, "contentChanges": [{"text": format!("{}def extra : A<7>;\n", text)}]}})));
        }
        blob.push(frame(&json!({"jsonrpc": "2.0", "id": 1000 + i as u64, "method": m, "params": params})));
        if with_edit && burst < 500 && i == burst / 2 {
            blob.push(frame(&json!({"jsonrpc": "2.0", "method": "textDocument/didChange", "params": {"textDocument": {"uri": uri, "version": 2}, "contentChanges": [{"text": format!("{}def extra : A<7>;\n", text)}]}})));
        }
    }
    let all_written = Arc::new(std::sync::atomic::AtomicBool::new(false));
    let writer = if ready {
        let (stdin, all_written) = (stdin.clone(), all_written.clone());
        Some(std::thread::spawn(move || {
            for f in blob {
                let mut g = stdin.lock().unwrap_or_else(|p| p.into_inner());
                if g.write_all(&f).is_err() {
                    return;
                }
            }
            let _ = stdin.lock().unwrap_or_else(|p| p.into_inner()).flush();
            all_written.store(true, Ordering::SeqCst);
        }))
    } else {
        None
    };
    let wrote = ready;
    let want: BTreeSet<u64> = (0..burst as u64).map(|i| 1000 + i).collect();
    let mut stalled: Option<String> = None;
    let mut gave_up = false;
    if wrote {
        let mut idle_since = Instant::now();
        while !want.is_subset(&answered) {
            if pump(&mut answered, &mut published, &stdin, Duration::from_millis(100)) {
                idle_since = Instant::now();
                continue;
            }
            if idle_since.elapsed() >= Duration::from_secs(3) {
                // nothing has arrived for a while: is the server still doing anything at all?
                match process_idle_certificate(pid) {
                    Ok(c) => {
                        stalled = Some(if all_written.load(Ordering::SeqCst) { c } else { format!("{}; it has also stopped reading its input (part of the burst is still in the pipe)", c) });
                        break;
                    }
                    Err(why) => {
                        if idle_since.elapsed() >= Duration::from_secs(60) {
                            ctx.note(format!("request burst unanswered for 60 s but no stall certificate ({}): no verdict", why));
                            gave_up = true;
                            break;
                        }
                    }
                }
            }
        }
    }
    ctx.eval();
    ctx.feature("binary_bursts");
    ctx.feature(&format!("burst_cpus:{}", cpus));
    if burst > cpus {
        ctx.feature("burst_larger_than_cpu_count");
    }
    if with_edit {
        ctx.feature("burst_with_edit");
    }
    if burst >= 500 {
        ctx.feature("pile_up_bursts");
    }
    ctx.feature_n("burst_requests", burst as u64);
    ctx.nontrivial(fnv64(case.to_string().as_bytes()));
    if !ready || !wrote {
        ctx.feature("watchdog");
        ctx.note(format!("the binary did not complete the opening handshake (initialize answered: {}, diagnostics published: {}): no verdict", answered.contains(&0), published));
    } else if let Some(c) = stalled {
        let missing = want.difference(&answered).count();
        ctx.violation(
            format!("no-progress:request-burst:{}", if burst > cpus { "more-requests-than-cpus" } else { "at-most-as-many-requests-as-cpus" }),
            format!("shipped binary on {} CPU(s): {} of {} requests written in one burst{} were never answered; {}", cpus, missing, burst, if with_edit { " (with an edit in the middle)" } else { "" }, c),
            case.clone(),
        );
    } else if gave_up {
        ctx.feature("watchdog");
    } else {
        ctx.feature("burst_fully_answered");
    }
    if let Ok(mut g) = stdin.try_lock() {
        let _ = g.write_all(&frame(&json!({"jsonrpc": "2.0", "id": 9, "method": "shutdown", "params": Value::Null})));
        let _ = g.write_all(&frame(&json!({"jsonrpc": "2.0", "method": "exit", "params": Value::Null})));
        let _ = g.flush();
    }
    std::thread::sleep(Duration::from_millis(20));
    let _ = child.kill();
    let _ = child.wait();
    if let Some(w) = writer {
        let _ = w.join();
    }
    drop(stdin);
    let _ = reader.join();
    let _ = std::fs::remove_dir_all(&dir);
}

/// Every thread of process `pid` is asleep, in an unchanged wait (same context-switch count), and the process used no
/// CPU time between two samples 700 ms apart: nothing in it is working, and nothing will unless new input arrives.
fn process_idle_certificate(pid: u32) -> Result<String, String> {
    fn sample(pid: u32) -> Result<(Vec<(i32, char, u64)>, u64), String> {
        let mut v = Vec::new();
        for e in std::fs::read_dir(format!("/proc/{}/task", pid)).map_err(|e| e.to_string())?.flatten() {
            let Ok(tid) = e.file_name().to_string_lossy().parse::<i32>() else { continue };
            let status = std::fs::read_to_string(format!("/proc/{}/task/{}/status", pid, tid)).map_err(|e| e.to_string())?;
            let mut state = '?';
            let mut sw = 0u64;
            for l in status.lines() {
                if let Some(r) = l.strip_prefix("State:") {
                    state = r.trim().chars().next().unwrap_or('?');
                } else if let Some(r) = l.strip_prefix("voluntary_ctxt_switches:").or_else(|| l.strip_prefix("nonvoluntary_ctxt_switches:")) {
                    sw += r.trim().parse::<u64>().unwrap_or(0);
                }
            }
            v.push((tid, state, sw));
        }
        v.sort();
        let stat = std::fs::read_to_string(format!("/proc/{}/stat", pid)).map_err(|e| e.to_string())?;
        let after = stat.rsplit(')').next().unwrap_or("");
        let f: Vec<&str> = after.split_whitespace().collect();
        let cpu = f.get(11).and_then(|x| x.parse::<u64>().ok()).unwrap_or(0) + f.get(12).and_then(|x| x.parse::<u64>().ok()).unwrap_or(0);
        Ok((v, cpu))
    }
    let a = sample(pid)?;
    std::thread::sleep(Duration::from_millis(700));
    let b = sample(pid)?;
    if a != b {
        // the polling variant: threads may wake up and go back to sleep, but nothing computes - every thread asleep at
        // six samples over six seconds and at most one CPU tick used by the whole process
        let mut last = b;
        let mut awake: BTreeMap<i32, u32> = BTreeMap::new();
        for _ in 0..6 {
            for t in last.0.iter().filter(|t| t.1 != 'S') {
                *awake.entry(t.0).or_insert(0) += 1;
            }
            std::thread::sleep(Duration::from_secs(1));
            last = sample(pid)?;
        }
        if let Some((t, n)) = awake.iter().find(|(_, n)| **n > 1) {
            return Err(format!("thread {} was awake at {} of 6 samples", t, n));
        }
        if last.1 > a.1 + 30 {
            return Err("the server used CPU time between the samples".into());
        }
        return Ok(format!("all {} threads of the server process were asleep at (nearly) all of six samples over 6 s and the process used less than 5% of one core: threads wake up and go back to sleep without computing (a polling wait)", last.0.len()));
    }
    if let Some(t) = a.0.iter().find(|t| t.1 != 'S') {
        return Err(format!("thread {} is in state {}", t.0, t.1));
    }
    Ok(format!("all {} threads of the server process are asleep in an unchanged wait and the process used no CPU time between two samples", a.0.len()))
}

fn send_task_at(s: &mut Session, k: TaskKind, line: u64) -> Option<u64> {
    let td = json!({"uri": s.uri("/ws/a.td")});
    let pos = json!({"line": line, "character": 7});
    Some(match k {
        TaskKind::Diagnostics => return None,
        TaskKind::Hover => s.request("textDocument/hover", json!({"textDocument": td, "position": pos})),
        TaskKind::Definition => s.request("textDocument/definition", json!({"textDocument": td, "position": pos})),
        TaskKind::References => s.request("textDocument/references", json!({"textDocument": td, "position": pos, "context": {"includeDeclaration": true}})),
        TaskKind::DocumentSymbol => s.request("textDocument/documentSymbol", json!({"textDocument": td})),
        TaskKind::InlayHint => s.request("textDocument/inlayHint", json!({"textDocument": td, "range": {"start": {"line": 0, "character": 0}, "end": {"line": line + 5, "character": 0}}})),
        TaskKind::Completion => s.request("textDocument/completion", json!({"textDocument": td, "position": pos})),
        TaskKind::DocumentLink => s.request("textDocument/documentLink", json!({"textDocument": td})),
        TaskKind::FoldingRange => s.request("textDocument/foldingRange", json!({"textDocument": td})),
    })
}

fn scenarios(tier: Tier) -> Vec<(Handler, Vec<TaskKind>)> {
    let mut v = Vec::new();
    for h in [Handler::DidChangeRoot, Handler::DidOpenOther, Handler::DidChangeIncluded, Handler::DidChangeRootSameText] {
        for a in TASKS {
            v.push((h, vec![a]));
        }
        if tier == Tier::Thorough {
            for (i, a) in TASKS.iter().enumerate() {
                for b in &TASKS[i..] {
                    // at most one diagnostics task can be in flight (the next didChange would be the handler)
                    if *a == TaskKind::Diagnostics && *b == TaskKind::Diagnostics {
                        continue;
                    }
                    // the diagnostics task is created first: a later didChange would wait for earlier request tasks
                    v.push((h, vec![*a, *b]));
                }
            }
        } else {
            // quick: a few two-task scenarios
            v.push((h, vec![TaskKind::Diagnostics, TaskKind::Definition]));
            v.push((h, vec![TaskKind::References, TaskKind::DocumentLink]));
        }
    }
    v
}

impl Check for C08 {
    fn id(&self) -> &'static str {
        "C08"
    }
    fn units(&self, tier: Tier, _seed: u64) -> u64 {
        scenarios(tier).len() as u64 + tier.pick(16, 64) + tier.pick(12, 48)
    }
    fn run_unit(&self, unit: u64, ctx: &mut Ctx) {
        let sc = scenarios(ctx.tier);
        if (unit as usize) < sc.len() {
            let (h, tasks) = &sc[unit as usize];
            // a request task created AFTER a diagnostics-producing didChange is fine; but a didChange sent while
            // request tasks are in flight is itself a handler racing them: order the set-up so that it is first
            let mut tasks = tasks.clone();
            tasks.sort_by_key(|t| if *t == TaskKind::Diagnostics { 0 } else { 1 });
            explore(*h, &tasks, ctx, ctx.tier.pick(400, 4000));
            let st = sched().st.lock().unwrap_or_else(|p| p.into_inner());
            for (k, v) in &st.counts {
                ctx.features.insert(format!("event:{}", k), *v);
            }
            ctx.metric_max("max_live_snapshots", st.max_live as f64);
        } else if (unit as usize) < sc.len() + ctx.tier.pick(16, 64) {
            for rep in 0..ctx.tier.pick(5, 6) {
                stress(unit, rep, ctx);
            }
        } else {
            for k in 0..ctx.tier.pick(3, 6) {
                binary_burst(unit, k, ctx);
            }
        }
    }
    fn replay(&self, case: &Value, ctx: &mut Ctx) {
        if case["kind"] == "binary_burst" {
            run_burst(
                case["cpus"].as_u64().unwrap_or(2) as usize,
                case["burst"].as_u64().unwrap_or(3) as usize,
                case["with_edit"].as_bool().unwrap_or(false),
                case["defs"].as_u64().unwrap_or(400) as usize,
                case["rng_seed"].as_str().and_then(|s| s.parse().ok()).unwrap_or(0),
                ctx,
            );
            return;
        }
        if case["kind"] == "schedule" {
            let h = match case["handler"].as_str() {
                Some("DidOpenOther") => Handler::DidOpenOther,
                Some("DidChangeIncluded") => Handler::DidChangeIncluded,
                Some("DidChangeRootSameText") => Handler::DidChangeRootSameText,
                _ => Handler::DidChangeRoot,
            };
            let tasks: Vec<TaskKind> = case["tasks"].as_array().map(|a| a.iter().filter_map(|t| TASKS.iter().find(|k| Some(format!("{:?}", k).as_str()) == t.as_str()).copied()).collect()).unwrap_or_default();
            let prefix: Vec<usize> = case["choices"].as_array().map(|a| a.iter().filter_map(|x| x.as_u64().map(|v| v as usize)).collect()).unwrap_or_default();
            let run = run_schedule(h, &tasks, &prefix);
            ctx.eval();
            match run.outcome {
                Outcome::Deadlock(c, d) => ctx.violation(format!("deadlock:{:?}:{}", h, squash_cycle(&c)), d, case.clone()),
                Outcome::NoResponse(m) => ctx.violation(format!("no-progress:{:?}", h), m, case.clone()),
                _ => {}
            }
        } else if let Some(u) = case["unit"].as_u64() {
            stress(u / 16, u % 16, ctx);
        }
    }
    fn rule(&self) -> String {
        "CONTROLLED: the lsp hook callback blocks every server thread at its acquisition points (file-table read/write, salsa input write, task start); a scheduler grants one thread at a time, only when the modelled lock state lets the real acquisition succeed, and enumerates all grant orders depth-first by re-running the scenario on the real server (real tokio runtime, real locks) with a forced choice prefix. Scenarios: handler in {didChange of the root, didOpen of another document, didChange of an included open document, didChange of the root with unchanged text} against one in-flight snapshot task of each of the 9 kinds (8 request kinds + the diagnostics task of a preceding edit), quick also 2 and thorough all two-task combinations. A state where threads wait and none can be granted is a deadlock; the wait-for cycle over holders (not queue positions) is the witness; afterwards every request must have its response and the server must become idle. STRESS: uncontrolled sessions of 40-120 messages (edit bursts mixed with all request kinds) on a workspace whose analysis takes milliseconds, with seeded delays injected at the acquisition points; the same wait-for graph is maintained online and a stall is a violation only if it shows a cycle or passes the stall certificate (main loop inside a handler, every live snapshot task started, all of them asleep in one unchanged futex wait at two /proc/self/task samples while the monitor holds nobody back); a bare watchdog is no verdict. The same certificate decides a controlled schedule in which a granted thread never reaches its next hooked point. A second form of the certificate covers waits that poll (a thread sleeping in a timed wait and looking again): every thread asleep at all but at most one of six samples over 6 s, less than 5% of one core used by all of them together, no hook event. SHIPPED BINARY: the lsp binary built from the working tree, over stdio, pinned to 1-16 CPUs; bursts of N requests written frame by frame by a separate thread (N = CPUs, CPUs+1, 2*CPUs+1, 4*CPUs+3, 64, random <= 200, and pile-ups: an edit of a 20000-def document followed at once by 600-1100 hovers); every request must be answered; a stall is decided by the same two certificates taken on the server process (all threads asleep in an unchanged wait and no CPU time used / the polling form). non-trivial = every schedule / session; distinct = distinct grant sequences".into()
    }
    fn floors(&self, tier: Tier) -> Vec<(&'static str, u64)> {
        vec![("schedules", tier.pick(60, 1000)), ("handler:DidChangeRoot", 20), ("handler:DidOpenOther", 20), ("handler:DidChangeIncluded", 20), ("handler:DidChangeRootSameText", 20), ("task:Diagnostics", 6), ("task:Definition", 6), ("task:DocumentLink", 3), ("stress_sessions", tier.pick(16, 300)), ("binary_bursts", tier.pick(30, 250)), ("burst_larger_than_cpu_count", tier.pick(10, 100)), ("burst_fully_answered", tier.pick(30, 250)), ("pile_up_bursts", tier.pick(5, 20)), ("event:VfsReadHeld", 100), ("event:SalsaWriteDone", 100)]
    }
    fn exhaustive(&self, tier: Tier) -> Option<String> {
        Some(format!("all grant orders at the hooked points for each of the {} scenarios (capped at {} schedules per scenario; a cap hit is reported as feature scenario_truncated)", scenarios(tier).len(), tier.pick(400, 4000)))
    }
    fn assumptions(&self) -> Vec<String> {
        vec![
            "locks taken at un-hooked places are invisible to the wait-for graph; a stall through one is decided by the stall certificate (main loop inside a handler and every live snapshot task asleep in the same futex wait at two /proc samples, with the monitor in Free mode), anything short of that is a watchdog, i.e. no verdict".into(),
            "the main loop runs under block_on on a non-worker thread and snapshot tasks on the blocking pool, as in crates/lsp/src/main.rs".into(),
            "the file table is a std::sync::RwLock (futex implementation): a read request queues behind a write request that arrived earlier (writer preference), which the model reproduces; a re-entrant read by one thread is therefore a deadlock in the schedule where a writer arrives in between".into(),
        ]
    }
    fn workers(&self) -> usize {
        16
    }
    fn sanitizer_steps(&self, seed: u64, agg: &mut Agg) {
        // the stress sessions and a few controlled scenarios again, on a ThreadSanitizer build of this binary
        let n = scenarios(Tier::Quick).len() as u64;
        let units: Vec<u64> = vec![0, 1, 2, n, n + 1, n + 2, n + 3];
        crate::sanit::tsan("C08", seed, &units, agg);
    }
    fn unit_cpu_budget_s(&self) -> f64 {
        600.0
    }
    fn technique(&self) -> &'static str {
        "controlled-scheduler enumeration of thread interleavings at hooked synchronisation points on the real server + online wait-for-graph deadlock monitor; seeded-delay stress; request bursts against the shipped binary; stalls decided by OS-level thread-state certificates"
    }
}
