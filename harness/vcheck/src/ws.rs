//! In-memory workspaces driven through the real `ide::AnalysisHost`, the way the server drives it.
use ide::analysis::{Analysis, AnalysisHost};
use ide::file_system::{FileId, FilePath, FileSet, FileSystem};
use serde_json::{json, Value};
use std::collections::BTreeMap;
use std::path::PathBuf;
use std::sync::Arc;

#[derive(Default)]
pub struct MemFs {
    pub files: BTreeMap<PathBuf, String>,
    set: FileSet,
    next: u32,
    pub reads: std::cell::Cell<u64>,
}
impl MemFs {
    pub fn new() -> Self {
        Self::default()
    }
    pub fn write(&mut self, path: &str, text: &str) {
        self.files.insert(PathBuf::from(path), text.to_string());
    }
    pub fn remove(&mut self, path: &str) {
        self.files.remove(&PathBuf::from(path));
    }
    pub fn id_of(&self, path: &str) -> Option<FileId> {
        self.set.file_for_path(&FilePath(PathBuf::from(path)))
    }
    pub fn path_of(&self, id: FileId) -> Option<String> {
        if self.set.contains(&id) {
            Some(self.set.path_for_file(&id).0.to_string_lossy().to_string())
        } else {
            None
        }
    }
}
impl FileSystem for MemFs {
    fn assign_or_get_file_id(&mut self, path: FilePath) -> FileId {
        match self.set.file_for_path(&path) {
            Some(id) => id,
            None => {
                let id = FileId(self.next);
                self.next += 1;
                self.set.insert(id, path);
                id
            }
        }
    }
    fn path_for_file(&self, file_id: &FileId) -> &FilePath {
        self.set.path_for_file(file_id)
    }
    fn read_content(&self, file_path: &FilePath) -> Option<String> {
        self.reads.set(self.reads.get() + 1);
        self.files.get(&file_path.0).cloned()
    }
}

/// A workspace as data: (path, text) pairs and which one is the root.
#[derive(Clone, Debug)]
pub struct Workspace {
    pub files: Vec<(String, String)>,
    pub root: usize,
}
impl Workspace {
    pub fn single(text: &str) -> Workspace {
        Workspace { files: vec![("/ws/main.td".to_string(), text.to_string())], root: 0 }
    }
    pub fn to_json(&self) -> Value {
        let files: serde_json::Map<String, Value> = self.files.iter().map(|(p, t)| (p.clone(), json!(t))).collect();
        json!({"kind": "workspace", "files": files, "root": self.files[self.root].0})
    }
    pub fn from_json(v: &Value) -> Option<Workspace> {
        let root_path = v["root"].as_str()?;
        let mut files = Vec::new();
        let mut root = None;
        for (p, t) in v["files"].as_object()? {
            if p == root_path {
                root = Some(files.len());
            }
            files.push((p.clone(), t.as_str()?.to_string()));
        }
        Some(Workspace { files, root: root? })
    }
    pub fn text_of(&self, path: &str) -> Option<&str> {
        self.files.iter().find(|(p, _)| p == path).map(|(_, t)| t.as_str())
    }
    pub fn digest(&self) -> u64 {
        let mut h = crate::core::fnv64(self.files[self.root].0.as_bytes());
        for (p, t) in &self.files {
            h = h.rotate_left(7) ^ crate::core::fnv64(p.as_bytes()) ^ crate::core::fnv64(t.as_bytes()).rotate_left(13);
        }
        h
    }
}

pub struct Loaded {
    pub host: AnalysisHost,
    pub fs: MemFs,
    pub root: FileId,
}
impl Loaded {
    pub fn analysis(&self) -> Analysis {
        self.host.analysis()
    }
    /// the edit protocol of the server: new text for `path`, which becomes the root
    pub fn edit_and_root(&mut self, path: &str, text: &str) {
        self.fs.write(path, text);
        let id = self.fs.assign_or_get_file_id(FilePath(PathBuf::from(path)));
        self.host.set_file_content(id, Arc::from(text));
        self.host.set_root_file(&mut self.fs, id);
        self.root = id;
    }
}

pub fn load(ws: &Workspace) -> Loaded {
    let mut fs = MemFs::new();
    for (p, t) in &ws.files {
        fs.write(p, t);
    }
    let mut host = AnalysisHost::new();
    let (rp, rt) = &ws.files[ws.root];
    let root = fs.assign_or_get_file_id(FilePath(PathBuf::from(rp)));
    host.set_file_content(root, Arc::from(rt.as_str()));
    host.set_root_file(&mut fs, root);
    Loaded { host, fs, root }
}
