//! Reference lexer written from the LLVM TableGen Programmer's Reference (token grammar) and the
//! behaviour of LLVM's TGLexer for the corners the reference leaves open. Independent of crates/syntax.
//! It only has to be right on *valid* token sequences; anything else yields `Err`.

#[derive(Clone, Copy, PartialEq, Eq, Debug, Hash)]
pub enum Class {
    Ident,
    Keyword,
    Int,    // decimal or hexadecimal
    BinInt, // 0b...
    Str,
    Code,
    VarName,
    BangOp,
    CondOp,
    Punct,
    Directive, // #define/#ifdef/#ifndef/#else/#endif (only met in corpus files)
}

#[derive(Clone, Debug, PartialEq, Eq)]
pub struct RTok {
    pub class: Class,
    pub start: usize,
    pub end: usize,
}

pub const KEYWORDS: [&str; 25] = [
    "assert", "bit", "bits", "class", "code", "dag", "def", "dump", "else", "false", "foreach", "defm", "defset", "defvar", "field", "if", "in", "include", "int", "let", "list",
    "multiclass", "string", "then", "true",
];

/// Bang operators of the Programmer's Reference (`!cond` is listed separately as CondOperator).
pub const BANG_OPS: [&str; 51] = [
    "add", "and", "cast", "con", "dag", "div", "empty", "eq", "exists", "filter", "find", "foldl", "foreach", "ge", "getdagarg", "getdagname", "getdagop", "gt", "head", "if",
    "initialized", "interleave", "isa", "le", "listconcat", "listflatten", "listremove", "listsplat", "logtwo", "lt", "mul", "ne", "not", "or", "range", "repr", "setdagarg", "setdagname",
    "setdagop", "shl", "size", "sra", "srl", "strconcat", "sub", "subst", "substr", "tail", "tolower", "toupper", "xor",
];

pub const PUNCT: [&str; 18] = ["-", "+", "[", "]", "{", "}", "(", ")", "<", ">", ":", ";", ",", ".", "...", "=", "?", "#"];

fn is_ualpha(c: u8) -> bool {
    c.is_ascii_alphabetic() || c == b'_'
}
fn is_idc(c: u8) -> bool {
    c.is_ascii_alphanumeric() || c == b'_'
}

pub fn lex(text: &str) -> Result<Vec<RTok>, String> {
    let b = text.as_bytes();
    let n = b.len();
    let mut i = 0;
    let mut out = Vec::new();
    let at = |k: usize| -> u8 { if k < n { b[k] } else { 0 } };
    while i < n {
        let c = b[i];
        // whitespace
        if c == b' ' || c == b'\t' || c == b'\n' || c == b'\r' {
            i += 1;
            continue;
        }
        // comments
        if c == b'/' && at(i + 1) == b'/' {
            while i < n && b[i] != b'\n' && b[i] != b'\r' {
                i += 1;
            }
            continue;
        }
        if c == b'/' && at(i + 1) == b'*' {
            let mut depth = 1;
            i += 2;
            while depth > 0 {
                if i >= n {
                    return Err("unterminated block comment".into());
                }
                if b[i] == b'/' && at(i + 1) == b'*' {
                    depth += 1;
                    i += 2;
                } else if b[i] == b'*' && at(i + 1) == b'/' {
                    depth -= 1;
                    i += 2;
                } else {
                    i += 1;
                }
            }
            continue;
        }
        let start = i;
        // numbers and digit-leading identifiers
        if c.is_ascii_digit() {
            let mut j = i;
            while at(j).is_ascii_digit() {
                j += 1;
            }
            let nc = at(j);
            if (nc == b'x' || nc == b'b') && j == i + 1 && c == b'0' {
                // 0x / 0b prefix
                let mut k = j + 1;
                if nc == b'x' {
                    while at(k).is_ascii_hexdigit() {
                        k += 1;
                    }
                } else {
                    while at(k) == b'0' || at(k) == b'1' {
                        k += 1;
                    }
                }
                if k > j + 1 && !is_idc(at(k)) {
                    out.push(RTok { class: if nc == b'x' { Class::Int } else { Class::BinInt }, start, end: k });
                    i = k;
                    continue;
                }
                if k > j + 1 {
                    return Err(format!("radix digits glued to identifier characters after 0{} at {}", nc as char, i));
                }
                // no digit of that radix follows (`0bar`, `0xg`): an identifier, handled below
            }
            if is_ualpha(nc) {
                // LLVM lexes <digits> x <hex digit> / <digits> b <0|1> as a number first: outside the fragment
                let nn = at(j + 1);
                if (nc == b'x' && nn.is_ascii_hexdigit()) || (nc == b'b' && (nn == b'0' || nn == b'1')) {
                    return Err(format!("digits followed by a radix-like prefix at {}: outside the audited fragment", i));
                }
                let mut k = j;
                while is_idc(at(k)) {
                    k += 1;
                }
                out.push(RTok { class: Class::Ident, start, end: k });
                i = k;
                continue;
            }
            out.push(RTok { class: Class::Int, start, end: j });
            i = j;
            continue;
        }
        if (c == b'+' || c == b'-') && at(i + 1).is_ascii_digit() {
            let mut j = i + 1;
            while at(j).is_ascii_digit() {
                j += 1;
            }
            if is_idc(at(j)) {
                return Err(format!("signed number glued to identifier characters at {}", i));
            }
            out.push(RTok { class: Class::Int, start, end: j });
            i = j;
            continue;
        }
        if is_ualpha(c) {
            let mut k = i;
            while is_idc(at(k)) {
                k += 1;
            }
            let w = &text[i..k];
            out.push(RTok { class: if KEYWORDS.contains(&w) { Class::Keyword } else { Class::Ident }, start, end: k });
            i = k;
            continue;
        }
        if c == b'"' {
            let mut k = i + 1;
            loop {
                if k >= n {
                    return Err("unterminated string".into());
                }
                match b[k] {
                    b'"' => {
                        k += 1;
                        break;
                    }
                    b'\n' | b'\r' => return Err("newline in string".into()),
                    b'\\' => {
                        match at(k + 1) {
                            b'\\' | b'\'' | b'"' | b't' | b'n' => k += 2,
                            _ => return Err(format!("invalid escape at {}", k)),
                        }
                    }
                    _ => k += 1,
                }
            }
            out.push(RTok { class: Class::Str, start, end: k });
            i = k;
            continue;
        }
        if c == b'$' {
            if !is_ualpha(at(i + 1)) {
                return Err("bad variable name".into());
            }
            let mut k = i + 1;
            while is_idc(at(k)) {
                k += 1;
            }
            out.push(RTok { class: Class::VarName, start, end: k });
            i = k;
            continue;
        }
        if c == b'[' && at(i + 1) == b'{' {
            match text[i + 2..].find("}]") {
                Some(p) => {
                    let k = i + 2 + p + 2;
                    out.push(RTok { class: Class::Code, start, end: k });
                    i = k;
                    continue;
                }
                None => return Err("unterminated code".into()),
            }
        }
        if c == b'!' {
            let mut k = i + 1;
            while at(k).is_ascii_alphabetic() {
                k += 1;
            }
            let w = &text[i + 1..k];
            if w == "cond" {
                out.push(RTok { class: Class::CondOp, start, end: k });
            } else if BANG_OPS.contains(&w) {
                out.push(RTok { class: Class::BangOp, start, end: k });
            } else {
                return Err(format!("unknown bang operator !{}", w));
            }
            i = k;
            continue;
        }
        if c == b'#' {
            let mut k = i + 1;
            while at(k).is_ascii_alphabetic() {
                k += 1;
            }
            let w = &text[i + 1..k];
            if ["define", "ifdef", "ifndef", "else", "endif"].contains(&w) {
                out.push(RTok { class: Class::Directive, start, end: k });
                i = k;
            } else {
                out.push(RTok { class: Class::Punct, start, end: i + 1 });
                i += 1;
            }
            continue;
        }
        if c == b'.' {
            if text[i..].starts_with("...") {
                out.push(RTok { class: Class::Punct, start, end: i + 3 });
                i += 3;
                continue;
            }
            if at(i + 1) == b'.' {
                return Err("'..' is not a token".into());
            }
        }
        if b"-+[]{}()<>:;,.=?".contains(&c) {
            out.push(RTok { class: Class::Punct, start, end: i + 1 });
            i += 1;
            continue;
        }
        return Err(format!("unexpected character {:?} at {}", text[i..].chars().next(), i));
    }
    Ok(out)
}
