//! Reference position mapper, written from the LSP specification only:
//! lines end at LF, CRLF or CR (nothing else); columns count UTF-16 code units; a column past the end of a
//! line denotes the line end (before its terminator).
pub struct RefPos<'a> {
    pub text: &'a str,
    /// byte offset of the start of each line; always starts with 0
    pub line_starts: Vec<usize>,
}

impl<'a> RefPos<'a> {
    pub fn new(text: &'a str) -> Self {
        let b = text.as_bytes();
        let mut line_starts = vec![0usize];
        let mut i = 0;
        while i < b.len() {
            match b[i] {
                b'\n' => {
                    line_starts.push(i + 1);
                    i += 1;
                }
                b'\r' => {
                    if i + 1 < b.len() && b[i + 1] == b'\n' {
                        line_starts.push(i + 2);
                        i += 2;
                    } else {
                        line_starts.push(i + 1);
                        i += 1;
                    }
                }
                _ => i += 1,
            }
        }
        RefPos { text, line_starts }
    }
    pub fn line_count(&self) -> usize {
        self.line_starts.len()
    }
    /// end of the content of `line` (before its terminator, or end of text)
    pub fn content_end(&self, line: usize) -> usize {
        let start = self.line_starts[line];
        let next = if line + 1 < self.line_starts.len() { self.line_starts[line + 1] } else { self.text.len() };
        let b = self.text.as_bytes();
        let mut e = next;
        if line + 1 < self.line_starts.len() {
            // strip exactly one terminator
            if e > start && b[e - 1] == b'\n' {
                e -= 1;
                if e > start && b[e - 1] == b'\r' {
                    e -= 1;
                }
            } else if e > start && b[e - 1] == b'\r' {
                e -= 1;
            }
        }
        e
    }
    pub fn line_of(&self, offset: usize) -> usize {
        match self.line_starts.binary_search(&offset) {
            Ok(i) => i,
            Err(i) => i - 1,
        }
    }
    /// offset -> (line, UTF-16 column)
    pub fn to_line_col(&self, offset: usize) -> (u32, u32) {
        let line = self.line_of(offset);
        let start = self.line_starts[line];
        let col: usize = self.text[start..offset].chars().map(|c| c.len_utf16()).sum();
        (line as u32, col as u32)
    }
    /// true if `offset` lies strictly between the CR and the LF of one CRLF terminator
    pub fn inside_crlf(&self, offset: usize) -> bool {
        let b = self.text.as_bytes();
        offset > 0 && offset < b.len() && b[offset - 1] == b'\r' && b[offset] == b'\n'
    }
    /// UTF-16 width of the content of `line`
    pub fn width16(&self, line: usize) -> u32 {
        let s = self.line_starts[line];
        let e = self.content_end(line);
        self.text[s..e].chars().map(|c| c.len_utf16() as u32).sum()
    }
    /// (line, UTF-16 column) -> offset. None = not demanded (line beyond the text, or the column splits a
    /// surrogate pair).
    pub fn from_line_col(&self, line: u32, col: u32) -> Option<usize> {
        let line = line as usize;
        if line >= self.line_starts.len() {
            return None;
        }
        let s = self.line_starts[line];
        let e = self.content_end(line);
        let mut acc = 0u32;
        let mut off = s;
        for c in self.text[s..e].chars() {
            if acc == col {
                return Some(off);
            }
            let w = c.len_utf16() as u32;
            if acc + w > col {
                return None; // inside a surrogate pair
            }
            acc += w;
            off += c.len_utf8();
        }
        // col == width, or past the end => line end
        Some(e)
    }
}
