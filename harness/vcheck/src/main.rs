use vcheck::{c04, c07, c08, c10, c14, c15, c16, c20, core, gchecks, gprog, grammar, lspchecks, lspdrv, reflex, refpos, sweep, swchecks, synchecks, texts, ws};

use crate::core::{Check, Tier};

static C01: synchecks::SynCheck = synchecks::SynCheck { mode: synchecks::Mode::Lossless };
static C02: synchecks::SynCheck = synchecks::SynCheck { mode: synchecks::Mode::Totality };

static C03: swchecks::SwCheck = swchecks::SwCheck { mode: swchecks::SMode::Totality };
static C06: swchecks::SwCheck = swchecks::SwCheck { mode: swchecks::SMode::Coherence };
static C17: swchecks::SwCheck = swchecks::SwCheck { mode: swchecks::SMode::Ranges };
static C04: c04::C04 = c04::C04;
static C05: gchecks::GCheck = gchecks::GCheck { mode: gchecks::GMode::Resolution };
static C13: gchecks::GCheck = gchecks::GCheck { mode: gchecks::GMode::Diagnostics };
static C18: gchecks::GCheck = gchecks::GCheck { mode: gchecks::GMode::Outline };
static C19: gchecks::GCheck = gchecks::GCheck { mode: gchecks::GMode::Hover };
static C07: c07::C07 = c07::C07;
static C08: c08::C08 = c08::C08;
static C09: lspchecks::LspCheck = lspchecks::LspCheck { mode: lspchecks::LMode::Locations };
static C11: lspchecks::LspCheck = lspchecks::LspCheck { mode: lspchecks::LMode::Converge };
static C12: lspchecks::LspCheck = lspchecks::LspCheck { mode: lspchecks::LMode::Buffers };
static C10: c10::C10 = c10::C10;
static C14: c14::C14 = c14::C14;
static C15: c15::C15 = c15::C15;
static C16: c16::C16 = c16::C16;
static C20: c20::C20 = c20::C20;

fn registry() -> Vec<&'static dyn Check> {
    vec![&C01, &C02, &C03, &C04, &C05, &C06, &C07, &C08, &C09, &C11, &C12, &C17, &C10, &C13, &C18, &C19, &C14, &C15, &C16, &C20]
}

fn usage() -> ! {
    eprintln!("usage: vcheck <ID> [--tier quick|thorough] [--seed N] [--replay FILE] [--worker i/n] [--skip-through u]");
    std::process::exit(64);
}

fn main() {
    let args: Vec<String> = std::env::args().collect();
    if args.len() < 2 {
        usage();
    }
    let id = args[1].clone();
    if id == "gprog-sample" {
        let n: u64 = args.get(2).and_then(|s| s.parse().ok()).unwrap_or(1);
        let seed: u64 = args.get(3).and_then(|s| s.parse().ok()).unwrap_or(1);
        for k in 0..n {
            let mut rng = core::Rng::derive(seed, 0x6, k);
            let cfg = gprog::Cfg::default_for(&mut rng);
            let p = gprog::generate(&mut rng, cfg);
            for (path, text) in &p.files {
                println!("=== {} ===\n{}", path, text);
            }
            println!("--- decls {} uses {} hints {} folds {} faults {}", p.decls.len(), p.uses.len(), p.hints.len(), p.folds.len(), p.fault_sites.len());
        }
        return;
    }
    if id == "gprog-triage" {
        let n: u64 = args.get(2).and_then(|s| s.parse().ok()).unwrap_or(100);
        let seed: u64 = args.get(3).and_then(|s| s.parse().ok()).unwrap_or(1);
        let (mut rejected, mut diag) = (0, 0);
        let mut shown = std::collections::BTreeSet::new();
        for k in 0..n {
            let mut rng = core::Rng::derive(seed, 0x6, k);
            let cfg = gprog::Cfg::default_for(&mut rng);
            let p = gprog::generate(&mut rng, cfg);
            if args.get(4).and_then(|s| s.parse::<u64>().ok()) == Some(k) {
                for f in &p.files {
                    println!("=== {}\n{}", f.0, f.1);
                }
            }
            if let gprog::audit::Audit::Rejected(e) = gprog::audit::run(&p, "triage") {
                rejected += 1;
                let key: String = e.split("error:").nth(1).unwrap_or(&e).chars().filter(|c| !c.is_ascii_digit()).take(40).collect();
                if shown.insert(format!("T{}", key)) {
                    println!("TBLGEN REJECTS k={}: {}", k, e);
                    // the offending source line
                    let mut it = e.split(':');
                    if let (Some(path), Some(line)) = (it.next(), it.next().and_then(|l| l.trim().parse::<usize>().ok())) {
                        if let Some(f) = p.files.iter().find(|q| path.ends_with(q.0.trim_start_matches("/ws/"))) {
                            println!("    {}", f.1.lines().nth(line.saturating_sub(1)).unwrap_or(""));
                        }
                    }
                }
            }
            let l = ws::load(&p.workspace());
            let d = l.analysis().diagnostics();
            for (f, ds) in d {
                for x in ds {
                    diag += 1;
                    let key: String = x.message.chars().filter(|c| !c.is_ascii_digit()).take(30).collect();
                    if shown.insert(format!("D{}", key)) {
                        let path = l.fs.path_of(f).unwrap_or_default();
                        let text = p.files.iter().find(|q| q.0 == path).map(|q| q.1.clone()).unwrap_or_default();
                        let (a, b) = (usize::from(x.location.range.start()), usize::from(x.location.range.end()));
                        let ls = text[..a.min(text.len())].rfind('\n').map(|i| i + 1).unwrap_or(0);
                        let le = text[b.min(text.len())..].find('\n').map(|i| i + b).unwrap_or(text.len());
                        println!("DIAG k={} {}: {} @ {:?} in line: {}", k, path, x.message, &text[a.min(text.len())..b.min(text.len())], &text[ls..le]);
                    }
                }
            }
        }
        println!("programs {} tblgen-rejected {} diagnostics {}", n, rejected, diag);
        return;
    }
    let Some(check) = registry().into_iter().find(|c| c.id() == id) else {
        println!("INCONCLUSIVE property={} reason=no such check in this build", id);
        std::process::exit(2);
    };
    let mut tier = match std::env::var("VERIF_TIER").ok().as_deref() {
        Some("thorough") => Tier::Thorough,
        _ => Tier::Quick,
    };
    let mut seed: u64 = std::env::var("VERIF_SEED").ok().and_then(|s| s.trim().parse::<i64>().ok()).map(|v| v as u64).unwrap_or(1);
    let mut replay: Option<String> = None;
    let mut worker: Option<(u64, u64)> = None;
    let mut skip: Option<u64> = None;
    let mut i = 2;
    while i < args.len() {
        match args[i].as_str() {
            "--tier" => {
                i += 1;
                tier = if args.get(i).map(|s| s.as_str()) == Some("thorough") { Tier::Thorough } else { Tier::Quick };
            }
            "quick" => tier = Tier::Quick,
            "thorough" => tier = Tier::Thorough,
            "--seed" => {
                i += 1;
                seed = args.get(i).and_then(|s| s.parse::<i64>().ok()).map(|v| v as u64).unwrap_or(1);
            }
            "--replay" => {
                i += 1;
                replay = args.get(i).cloned();
            }
            "--worker" => {
                i += 1;
                let s = args.get(i).cloned().unwrap_or_default();
                let mut it = s.split('/');
                let a = it.next().and_then(|x| x.parse().ok()).unwrap_or(0);
                let b = it.next().and_then(|x| x.parse().ok()).unwrap_or(1);
                worker = Some((a, b));
            }
            "--skip-through" => {
                i += 1;
                skip = args.get(i).and_then(|s| s.parse().ok());
            }
            _ => usage(),
        }
        i += 1;
    }
    let code = if let Some(path) = replay {
        core::run_replay(check, &path)
    } else if let Some((wi, wn)) = worker {
        core::run_worker(check, tier, seed, wi, wn, skip)
    } else {
        core::supervise(check, tier, seed)
    };
    std::process::exit(code);
}
