mod c10;
mod c14;
mod c15;
mod c16;
mod c20;
mod core;
mod reflex;
mod refpos;
mod synchecks;
mod texts;
mod ws;

use crate::core::{Check, Tier};

static C01: synchecks::SynCheck = synchecks::SynCheck { mode: synchecks::Mode::Lossless };
static C02: synchecks::SynCheck = synchecks::SynCheck { mode: synchecks::Mode::Totality };

static C10: c10::C10 = c10::C10;
static C14: c14::C14 = c14::C14;
static C15: c15::C15 = c15::C15;
static C16: c16::C16 = c16::C16;
static C20: c20::C20 = c20::C20;

fn registry() -> Vec<&'static dyn Check> {
    vec![&C01, &C02, &C10, &C14, &C15, &C16, &C20]
}

fn usage() -> ! {
    eprintln!("usage: vcheck <ID> [--tier quick|thorough] [--seed N] [--replay FILE] [--worker i/n] [--skip-through u]");
    std::process::exit(64);
}

fn main() {
    let args: Vec<String> = std::env::args().collect();
    if args.len() < 2 {
        usage();
    }
    let id = args[1].clone();
    let Some(check) = registry().into_iter().find(|c| c.id() == id) else {
        println!("INCONCLUSIVE property={} reason=no such check in this build", id);
        std::process::exit(2);
    };
    let mut tier = match std::env::var("VERIF_TIER").ok().as_deref() {
        Some("thorough") => Tier::Thorough,
        _ => Tier::Quick,
    };
    let mut seed: u64 = std::env::var("VERIF_SEED").ok().and_then(|s| s.trim().parse::<i64>().ok()).map(|v| v as u64).unwrap_or(1);
    let mut replay: Option<String> = None;
    let mut worker: Option<(u64, u64)> = None;
    let mut skip: Option<u64> = None;
    let mut i = 2;
    while i < args.len() {
        match args[i].as_str() {
            "--tier" => {
                i += 1;
                tier = if args.get(i).map(|s| s.as_str()) == Some("thorough") { Tier::Thorough } else { Tier::Quick };
            }
            "quick" => tier = Tier::Quick,
            "thorough" => tier = Tier::Thorough,
            "--seed" => {
                i += 1;
                seed = args.get(i).and_then(|s| s.parse::<i64>().ok()).map(|v| v as u64).unwrap_or(1);
            }
            "--replay" => {
                i += 1;
                replay = args.get(i).cloned();
            }
            "--worker" => {
                i += 1;
                let s = args.get(i).cloned().unwrap_or_default();
                let mut it = s.split('/');
                let a = it.next().and_then(|x| x.parse().ok()).unwrap_or(0);
                let b = it.next().and_then(|x| x.parse().ok()).unwrap_or(1);
                worker = Some((a, b));
            }
            "--skip-through" => {
                i += 1;
                skip = args.get(i).and_then(|s| s.parse().ok());
            }
            _ => usage(),
        }
        i += 1;
    }
    let code = if let Some(path) = replay {
        core::run_replay(check, &path)
    } else if let Some((wi, wn)) = worker {
        core::run_worker(check, tier, seed, wi, wn, skip)
    } else {
        core::supervise(check, tier, seed)
    };
    std::process::exit(code);
}
