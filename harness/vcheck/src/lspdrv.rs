//! In-process LSP driver: the real `lsp::server::Server` router inside `async_lsp::MainLoop`, connected to the
//! harness (the client) by in-memory pipes carrying raw Content-Length frames. Histories are recorded at the
//! client boundary: every call before it is sent, every response / notification as it arrives.
use serde_json::{json, Value};
use std::collections::BTreeMap;
use std::path::PathBuf;
use std::sync::atomic::{AtomicU64, Ordering};
use std::sync::mpsc::{Receiver, RecvTimeoutError};
use std::sync::{Arc, Mutex};
use std::time::{Duration, Instant};
use tokio::io::{AsyncReadExt, AsyncWriteExt};
use tokio_util::compat::{TokioAsyncReadCompatExt, TokioAsyncWriteCompatExt};

pub use lsp::verif::Event;

/// Process-global hook state shared by all sessions (one session at a time per process).
pub struct HookLog {
    pub events: Mutex<Vec<(std::thread::ThreadId, Event)>>,
    pub taken: AtomicU64,
    pub ended: AtomicU64,
    pub keep_events: std::sync::atomic::AtomicBool,
}
pub fn hook_log() -> &'static HookLog {
    static LOG: std::sync::OnceLock<HookLog> = std::sync::OnceLock::new();
    LOG.get_or_init(|| HookLog { events: Mutex::new(Vec::new()), taken: AtomicU64::new(0), ended: AtomicU64::new(0), keep_events: std::sync::atomic::AtomicBool::new(false) })
}
/// Install the default (notify-only) hook: counts snapshot tasks, optionally keeps the event list.
pub fn install_counting_hook() {
    let log = hook_log();
    lsp::verif::set_hook(Some(Arc::new(move |e: &Event| {
        match e {
            Event::SnapshotTaken { .. } => {
                log.taken.fetch_add(1, Ordering::SeqCst);
            }
            Event::TaskEnd { .. } => {
                log.ended.fetch_add(1, Ordering::SeqCst);
            }
            _ => {}
        }
        if log.keep_events.load(Ordering::Relaxed) {
            log.events.lock().unwrap_or_else(|p| p.into_inner()).push((std::thread::current().id(), e.clone()));
        }
    })));
}

pub enum Incoming {
    Response { id: u64, result: Option<Value>, error: Option<Value>, seq: u64 },
    Notification { method: String, params: Value, seq: u64 },
    Closed,
}

pub struct Session {
    pub dir: PathBuf,
    rt: Option<tokio::runtime::Runtime>,
    tx: tokio::sync::mpsc::UnboundedSender<Vec<u8>>,
    rx: Receiver<Incoming>,
    next_id: u64,
    /// everything that arrived, in arrival order
    pub responses: BTreeMap<u64, (Option<Value>, Option<Value>, u64)>,
    pub notifications: Vec<(String, Value, u64)>,
    pub closed: bool,
    pub sent: Vec<Value>,
}

static SESSION_COUNTER: AtomicU64 = AtomicU64::new(0);

impl Session {
    pub fn start(tag: &str) -> Session {
        let n = SESSION_COUNTER.fetch_add(1, Ordering::SeqCst);
        let dir = PathBuf::from(format!("{}/target/work/lsp/{}.{}.{}", crate::core::VERIF_ROOT, tag, std::process::id(), n));
        let _ = std::fs::remove_dir_all(&dir);
        let _ = std::fs::create_dir_all(&dir);
        let rt = tokio::runtime::Builder::new_multi_thread().worker_threads(2).max_blocking_threads(16).thread_stack_size(crate::core::CASE_STACK).enable_all().build().expect("tokio runtime");
        let (client_io, server_io) = tokio::io::duplex(4 << 20);
        let (srv_r, srv_w) = tokio::io::split(server_io);
        // like the shipped binary (#[tokio::main]): the main loop is driven by block_on on a thread that is NOT a
        // runtime worker; snapshot tasks run on the blocking pool, async helpers on the workers
        let handle = rt.handle().clone();
        std::thread::Builder::new()
            .name("lsp-main-loop".into())
            .stack_size(8 << 20)
            .spawn(move || {
                handle.block_on(async move {
                    let (mainloop, _client) = async_lsp::MainLoop::new_server(|client| lsp::server::Server::new_router(client));
                    let _ = mainloop.run_buffered(srv_r.compat(), srv_w.compat_write()).await;
                });
            })
            .expect("spawn main loop thread");
        let (mut cli_r, mut cli_w) = tokio::io::split(client_io);
        let (tx, mut wrx) = tokio::sync::mpsc::unbounded_channel::<Vec<u8>>();
        rt.spawn(async move {
            while let Some(buf) = wrx.recv().await {
                if cli_w.write_all(&buf).await.is_err() {
                    break;
                }
                let _ = cli_w.flush().await;
            }
        });
        let (itx, rx) = std::sync::mpsc::channel::<Incoming>();
        let reply_tx = tx.clone();
        rt.spawn(async move {
            let mut seq = 0u64;
            let mut buf: Vec<u8> = Vec::new();
            let mut chunk = vec![0u8; 65536];
            loop {
                // parse as many frames as the buffer holds
                loop {
                    let Some(hend) = find_subslice(&buf, b"\r\n\r\n") else { break };
                    let header = String::from_utf8_lossy(&buf[..hend]).to_string();
                    let len = header.lines().find_map(|l| l.strip_prefix("Content-Length:").map(|v| v.trim().parse::<usize>().unwrap_or(0))).unwrap_or(0);
                    if buf.len() < hend + 4 + len {
                        break;
                    }
                    let body: Vec<u8> = buf[hend + 4..hend + 4 + len].to_vec();
                    buf.drain(..hend + 4 + len);
                    if let Ok(v) = serde_json::from_slice::<Value>(&body) {
                        seq += 1;
                        if v.get("method").is_some() && v.get("id").is_some() {
                            // a request of the server to its client: a well-behaved editor answers at once
                            let body = json!({"jsonrpc": "2.0", "id": v["id"], "result": Value::Null}).to_string();
                            let _ = reply_tx.send(format!("Content-Length: {}\r\n\r\n{}", body.len(), body).into_bytes());
                        }
                        let msg = if v.get("method").is_some() {
                            Incoming::Notification { method: v["method"].as_str().unwrap_or("").to_string(), params: v["params"].clone(), seq }
                        } else {
                            Incoming::Response { id: v["id"].as_u64().unwrap_or(u64::MAX), result: v.get("result").cloned(), error: v.get("error").cloned(), seq }
                        };
                        if itx.send(msg).is_err() {
                            return;
                        }
                    }
                }
                match cli_r.read(&mut chunk).await {
                    Ok(0) | Err(_) => {
                        let _ = itx.send(Incoming::Closed);
                        return;
                    }
                    Ok(n) => buf.extend_from_slice(&chunk[..n]),
                }
            }
        });
        let mut s = Session { dir, rt: Some(rt), tx, rx, next_id: 1, responses: BTreeMap::new(), notifications: Vec::new(), closed: false, sent: Vec::new() };
        // the handshake of a capable editor (dynamic registration, refresh requests, ... all announced)
        let id = s.request(
            "initialize",
            json!({
                "processId": Value::Null,
                "rootUri": Value::Null,
                "capabilities": {
                    "workspace": {
                        "applyEdit": true,
                        "workspaceFolders": true,
                        "configuration": true,
                        "inlayHint": {"refreshSupport": true},
                        "semanticTokens": {"refreshSupport": true},
                        "codeLens": {"refreshSupport": true},
                        "diagnostics": {"refreshSupport": true},
                        "didChangeWatchedFiles": {"dynamicRegistration": true}
                    },
                    "textDocument": {
                        "synchronization": {"dynamicRegistration": true, "didSave": true},
                        "publishDiagnostics": {"relatedInformation": true, "versionSupport": true},
                        "completion": {"completionItem": {"snippetSupport": true}},
                        "hover": {"contentFormat": ["markdown", "plaintext"]},
                        "definition": {"linkSupport": true},
                        "documentSymbol": {"hierarchicalDocumentSymbolSupport": true},
                        "inlayHint": {"dynamicRegistration": true},
                        "foldingRange": {"lineFoldingOnly": true}
                    },
                    "window": {"workDoneProgress": true, "showMessage": {}},
                    "general": {"positionEncodings": ["utf-16"]}
                }
            }),
        );
        let _ = s.wait_response(id, WATCHDOG);
        s.notify("initialized", json!({}));
        s.sent.clear();
        s
    }

    pub fn path(&self, rel: &str) -> PathBuf {
        self.dir.join(rel.trim_start_matches('/'))
    }
    pub fn uri(&self, rel: &str) -> String {
        // percent-encode everything a file: URI does not allow literally (blanks, '#', non-ASCII, ...)
        let mut out = String::from("file://");
        for b in self.path(rel).to_string_lossy().bytes() {
            if b.is_ascii_alphanumeric() || b"/-_.~".contains(&b) {
                out.push(b as char);
            } else {
                out.push_str(&format!("%{:02X}", b));
            }
        }
        out
    }
    /// relative name ("/ws/main.td") of a URI produced by the server for this session
    pub fn rel_of(&self, uri: &str) -> Option<String> {
        let p = uri.strip_prefix("file://")?;
        let mut bytes = Vec::new();
        let pb = p.as_bytes();
        let mut i = 0;
        while i < pb.len() {
            if pb[i] == b'%' && i + 3 <= pb.len() && p.is_char_boundary(i + 1) && p.is_char_boundary(i + 3) {
                if let Ok(v) = u8::from_str_radix(&p[i + 1..i + 3], 16) {
                    bytes.push(v);
                    i += 3;
                    continue;
                }
            }
            bytes.push(pb[i]);
            i += 1;
        }
        let decoded = String::from_utf8_lossy(&bytes).to_string();
        let d = self.dir.to_string_lossy().to_string();
        decoded.strip_prefix(&d).map(|s| s.to_string())
    }
    pub fn write_disk(&self, rel: &str, text: &str) {
        let p = self.path(rel);
        if let Some(parent) = p.parent() {
            let _ = std::fs::create_dir_all(parent);
        }
        let _ = std::fs::write(p, text);
    }

    /// rewrite a file and give it back the modification time it had (what `cp -p`, `rsync -t`, an archive extraction or
    /// a coarse file-system clock produce)
    pub fn write_disk_keep_mtime(&self, rel: &str, text: &str) {
        use std::os::unix::ffi::OsStrExt;
        use std::os::unix::fs::MetadataExt;
        let p = self.path(rel);
        let old = std::fs::metadata(&p).ok().map(|m| (m.atime(), m.atime_nsec(), m.mtime(), m.mtime_nsec()));
        let _ = std::fs::write(&p, text);
        if let Some((a, an, m, mn)) = old {
            if let Ok(c) = std::ffi::CString::new(p.as_os_str().as_bytes()) {
                let times = [libc::timespec { tv_sec: a, tv_nsec: an }, libc::timespec { tv_sec: m, tv_nsec: mn }];
                unsafe { libc::utimensat(libc::AT_FDCWD, c.as_ptr(), times.as_ptr(), 0) };
            }
        }
    }

    fn send(&mut self, v: Value) {
        self.sent.push(v.clone());
        let body = v.to_string();
        let frame = format!("Content-Length: {}\r\n\r\n{}", body.len(), body);
        let _ = self.tx.send(frame.into_bytes());
    }
    pub fn notify(&mut self, method: &str, params: Value) {
        self.send(json!({"jsonrpc": "2.0", "method": method, "params": params}));
    }
    pub fn request(&mut self, method: &str, params: Value) -> u64 {
        let id = self.next_id;
        self.next_id += 1;
        self.send(json!({"jsonrpc": "2.0", "id": id, "method": method, "params": params}));
        id
    }
    pub fn did_open(&mut self, rel: &str, text: &str) {
        let uri = self.uri(rel);
        self.notify("textDocument/didOpen", json!({"textDocument": {"uri": uri, "languageId": "tablegen", "version": 1, "text": text}}));
    }
    pub fn did_change(&mut self, rel: &str, version: i64, text: &str) {
        let uri = self.uri(rel);
        self.notify("textDocument/didChange", json!({"textDocument": {"uri": uri, "version": version}, "contentChanges": [{"text": text}]}));
    }

    /// wait up to `wait` for one message, then drain whatever else has arrived
    pub fn pump(&mut self, wait: Duration) {
        let mut first = true;
        loop {
            let r = if first { self.rx.recv_timeout(wait) } else { self.rx.try_recv().map_err(|e| match e { std::sync::mpsc::TryRecvError::Empty => RecvTimeoutError::Timeout, _ => RecvTimeoutError::Disconnected }) };
            first = false;
            match r {
                Ok(Incoming::Response { id, result, error, seq }) => {
                    self.responses.insert(id, (result, error, seq));
                }
                Ok(Incoming::Notification { method, params, seq }) => self.notifications.push((method, params, seq)),
                Ok(Incoming::Closed) => {
                    self.closed = true;
                    return;
                }
                Err(RecvTimeoutError::Timeout) => return,
                Err(RecvTimeoutError::Disconnected) => {
                    self.closed = true;
                    return;
                }
            }
        }
    }
    /// wait for the response to `id`; None = watchdog fired (never a verdict by itself)
    pub fn wait_response(&mut self, id: u64, watchdog: Duration) -> Option<(Option<Value>, Option<Value>)> {
        let deadline = Instant::now() + watchdog;
        loop {
            if let Some((r, e, _)) = self.responses.get(&id) {
                return Some((r.clone(), e.clone()));
            }
            if self.closed || Instant::now() >= deadline {
                return None;
            }
            self.pump(Duration::from_millis(20));
        }
    }
    pub fn call(&mut self, method: &str, params: Value, watchdog: Duration) -> Option<(Option<Value>, Option<Value>)> {
        let id = self.request(method, params);
        self.wait_response(id, watchdog)
    }

    /// Logical quiescence: every snapshot task that was started has ended (hook counters), then a barrier
    /// request has been answered (twice), so every earlier publishDiagnostics is already in `notifications`.
    pub fn quiesce(&mut self, watchdog: Duration) -> bool {
        let log = hook_log();
        let deadline = Instant::now() + watchdog;
        for _round in 0..2 {
            // the barrier also guarantees that all earlier notifications have been handled by the main loop
            let id = self.request("shutdown", Value::Null);
            if self.wait_response(id, deadline.saturating_duration_since(Instant::now())).is_none() {
                return false;
            }
            loop {
                if log.taken.load(Ordering::SeqCst) == log.ended.load(Ordering::SeqCst) {
                    break;
                }
                if Instant::now() >= deadline || self.closed {
                    return false;
                }
                self.pump(Duration::from_millis(1));
            }
        }
        let id = self.request("shutdown", Value::Null);
        self.wait_response(id, deadline.saturating_duration_since(Instant::now())).is_some()
    }

    /// last published diagnostics per relative path, and the versions seen per path in arrival order
    pub fn published(&self) -> (BTreeMap<String, Value>, BTreeMap<String, Vec<i64>>) {
        let mut last = BTreeMap::new();
        let mut versions: BTreeMap<String, Vec<i64>> = BTreeMap::new();
        for (m, p, _) in &self.notifications {
            if m == "textDocument/publishDiagnostics" {
                let uri = p["uri"].as_str().unwrap_or("");
                let rel = self.rel_of(uri).unwrap_or(uri.to_string());
                if let Some(v) = p["version"].as_i64() {
                    versions.entry(rel.clone()).or_default().push(v);
                }
                last.insert(rel, p["diagnostics"].clone());
            }
        }
        (last, versions)
    }

    pub fn shutdown(mut self) {
        if let Some(rt) = self.rt.take() {
            rt.shutdown_timeout(Duration::from_millis(200));
        }
        let _ = std::fs::remove_dir_all(&self.dir);
    }
    /// leave the runtime behind (its threads may be deadlocked); never joins
    pub fn abandon(mut self) {
        if let Some(rt) = self.rt.take() {
            rt.shutdown_background();
        }
        let _ = std::fs::remove_dir_all(&self.dir);
    }
}

fn find_subslice(h: &[u8], n: &[u8]) -> Option<usize> {
    h.windows(n.len()).position(|w| w == n)
}

pub const WATCHDOG: Duration = Duration::from_secs(30);
