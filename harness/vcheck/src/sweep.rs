//! The query sweep: every request an editor can make, on one workspace state, with results normalised
//! (FileId -> path, hash-ordered collections sorted) so that they can be checked and compared.
use crate::core::{guard, PanicInfo};
use crate::ws::{Loaded, Workspace};
use ide::file_system::{FileId, FilePosition, FileRange};
use std::collections::{BTreeMap, BTreeSet};
use text_size::{TextRange, TextSize};

pub type Loc = (String, usize, usize);

#[derive(Clone, Debug, PartialEq, Eq, Default)]
pub struct SymNode {
    pub name: String,
    pub kind: String,
    pub typ: String,
    pub range: (usize, usize),
    pub children: Vec<SymNode>,
}

#[derive(Clone, Debug, PartialEq, Eq, Default)]
pub struct FileRes {
    pub symbols: Option<Vec<SymNode>>,
    pub folds: Option<Vec<(usize, usize)>>,
    pub links: Option<Vec<(usize, usize, String)>>,
    pub hints_full: Option<Vec<(usize, String)>>,
    pub hints_sub: Vec<((usize, usize), Option<Vec<(usize, String)>>)>,
}

#[derive(Clone, Debug, PartialEq, Eq, Default)]
pub struct OffsetRes {
    pub goto: Option<Loc>,
    pub refs: Option<Vec<Loc>>,
    pub hover: Option<(String, Option<String>)>,
    pub completion: Option<Vec<(String, Option<String>)>>,
    pub completion_bang: Option<Vec<(String, Option<String>)>>,
}

#[derive(Clone, Debug, PartialEq, Eq, Default)]
pub struct SweepResult {
    /// path -> sorted diagnostics; the key set is the workspace as the analysis sees it
    pub diagnostics: BTreeMap<String, Vec<(usize, usize, String)>>,
    pub files: BTreeMap<String, FileRes>,
    pub offsets: BTreeMap<(String, usize), OffsetRes>,
    /// ids the analysis mentioned that the file system cannot name
    pub unknown_files: BTreeSet<u32>,
}

pub struct Panic {
    pub query: String,
    pub info: PanicInfo,
}

pub struct SweepOptions {
    /// files up to this size get every char-boundary offset; larger ones token boundaries and samples
    pub all_offsets_up_to: usize,
    pub max_offsets: usize,
    pub sub_ranges: usize,
    pub salt: u64,
}
impl Default for SweepOptions {
    fn default() -> Self {
        SweepOptions { all_offsets_up_to: 600, max_offsets: 400, sub_ranges: 4, salt: 1 }
    }
}

fn path_of(l: &Loaded, id: FileId, unknown: &mut BTreeSet<u32>) -> String {
    match l.fs.path_of(id) {
        Some(p) => p,
        None => {
            unknown.insert(id.0);
            format!("<unknown file {}>", id.0)
        }
    }
}
fn loc(l: &Loaded, r: FileRange, unknown: &mut BTreeSet<u32>) -> Loc {
    (path_of(l, r.file, unknown), usize::from(r.range.start()), usize::from(r.range.end()))
}

pub fn offsets_for(text: &str, opt: &SweepOptions) -> Vec<usize> {
    let mut v: Vec<usize> = Vec::new();
    if text.len() <= opt.all_offsets_up_to {
        v.extend(text.char_indices().map(|(i, _)| i));
        v.push(text.len());
    } else {
        let mut set = BTreeSet::new();
        set.insert(0);
        set.insert(text.len());
        for (s, e, k) in crate::texts::split_pieces(text) {
            if k != crate::texts::PieceKind::Space {
                set.insert(s);
                set.insert(e);
                let mut m = (s + e) / 2;
                while !text.is_char_boundary(m) {
                    m -= 1;
                }
                set.insert(m);
            }
        }
        v.extend(set);
        if v.len() > opt.max_offsets {
            // deterministic thinning
            let step = v.len() as f64 / opt.max_offsets as f64;
            let salt = (opt.salt % 7) as f64 / 7.0;
            let mut out = Vec::new();
            let mut x = salt;
            while (x as usize) < v.len() {
                out.push(v[x as usize]);
                x += step;
            }
            out.push(text.len());
            v = out;
        }
    }
    v
}

/// Runs every query on the loaded workspace. Each query is guarded; a panic is recorded and the sweep goes on.
pub fn sweep(l: &Loaded, ws: &Workspace, opt: &SweepOptions) -> (SweepResult, Vec<Panic>) {
    let mut res = SweepResult::default();
    let mut panics: Vec<Panic> = Vec::new();
    let a = l.analysis();
    let mut unknown = BTreeSet::new();
    macro_rules! q {
        ($name:expr, $e:expr) => {
            match guard(|| $e) {
                Ok(v) => Some(v),
                Err(info) => {
                    if panics.len() < 8 {
                        panics.push(Panic { query: $name.to_string(), info });
                    }
                    None
                }
            }
        };
    }
    let mut have_workspace = false;
    if let Some(d) = q!("diagnostics", a.diagnostics()) {
        have_workspace = true;
        for (fid, ds) in d {
            let p = path_of(l, fid, &mut unknown);
            let mut v: Vec<(usize, usize, String)> = ds.into_iter().map(|x| (usize::from(x.location.range.start()), usize::from(x.location.range.end()), x.message)).collect();
            v.sort();
            res.diagnostics.insert(p, v);
        }
    }
    // files to query: everything the analysis says is in the workspace
    let mut paths: BTreeSet<String> = res.diagnostics.keys().cloned().collect();
    if !have_workspace {
        // diagnostics() itself failed: fall back to the files we were given (requests for files outside the
        // workspace are not demanded, so normally only the analysis' own workspace is queried)
        for (p, _) in &ws.files {
            if l.fs.id_of(p).is_some() {
                paths.insert(p.clone());
            }
        }
    }
    for path in paths {
        let Some(fid) = l.fs.id_of(&path) else { continue };
        let text = l.fs.files.get(std::path::Path::new(&path)).cloned().unwrap_or_default();
        let mut fr = FileRes::default();
        fn conv(s: &ide::handlers::document_symbol::DocumentSymbol) -> SymNode {
            SymNode {
                name: s.name.to_string(),
                kind: format!("{:?}", s.kind),
                typ: s.typ.to_string(),
                range: (usize::from(s.range.start()), usize::from(s.range.end())),
                children: s.children.iter().map(conv).collect(),
            }
        }
        if let Some(s) = q!("document_symbol", a.document_symbol(fid)) {
            fr.symbols = s.map(|v| v.iter().map(conv).collect());
        }
        if let Some(f) = q!("folding_range", a.folding_range(fid)) {
            fr.folds = f.map(|v| v.iter().map(|x| (usize::from(x.range.start()), usize::from(x.range.end()))).collect());
        }
        if let Some(k) = q!("document_link", a.document_link(fid)) {
            fr.links = k.map(|v| v.iter().map(|x| (usize::from(x.range.start()), usize::from(x.range.end()), path_of(l, x.target, &mut unknown))).collect());
        }
        let len = text.len();
        let full = FileRange::new(fid, TextRange::new(0.into(), (len as u32).into()));
        if let Some(h) = q!("inlay_hint(full)", a.inlay_hint(full)) {
            fr.hints_full = h.map(|v| {
                let mut o: Vec<(usize, String)> = v.iter().map(|x| (usize::from(x.position), x.label.clone())).collect();
                o.sort();
                o
            });
        }
        // sub-ranges incl. empty ones
        let offs = offsets_for(&text, opt);
        let mut sub: Vec<(usize, usize)> = vec![(0, 0), (len, len)];
        if !offs.is_empty() {
            let n = offs.len();
            for k in 0..opt.sub_ranges {
                let i = ((k as u64 * 2654435761 + opt.salt * 40503) % n as u64) as usize;
                let j = ((k as u64 * 40503 + opt.salt * 2654435761 + 7) % n as u64) as usize;
                sub.push((offs[i.min(j)], offs[i.max(j)]));
                sub.push((offs[i], offs[i]));
            }
        }
        for (x, y) in sub {
            let r = FileRange::new(fid, TextRange::new((x as u32).into(), (y as u32).into()));
            let got = q!(format!("inlay_hint({}..{})", x, y), a.inlay_hint(r));
            fr.hints_sub.push((
                (x, y),
                got.flatten().map(|v| {
                    let mut o: Vec<(usize, String)> = v.iter().map(|h| (usize::from(h.position), h.label.clone())).collect();
                    o.sort();
                    o
                }),
            ));
        }
        res.files.insert(path.clone(), fr);
        for off in offs {
            let pos = FilePosition::new(fid, TextSize::from(off as u32));
            let mut o = OffsetRes::default();
            if let Some(g) = q!(format!("goto_definition@{}", off), a.goto_definition(pos)) {
                o.goto = g.map(|r| loc(l, r, &mut unknown));
            }
            if let Some(r) = q!(format!("references@{}", off), a.references(pos)) {
                o.refs = r.map(|v| {
                    let mut x: Vec<Loc> = v.into_iter().map(|r| loc(l, r, &mut unknown)).collect();
                    x.sort();
                    x
                });
            }
            if let Some(h) = q!(format!("hover@{}", off), a.hover(pos)) {
                o.hover = h.map(|h| (h.signature, h.document));
            }
            if let Some(c) = q!(format!("completion@{}", off), a.completion(pos, None)) {
                o.completion = c.map(|v| {
                    let mut x: Vec<(String, Option<String>)> = v.into_iter().map(|i| (i.label, i.insert_text_snippet)).collect();
                    x.sort();
                    x
                });
            }
            if let Some(c) = q!(format!("completion!@{}", off), a.completion(pos, Some("!".to_string()))) {
                o.completion_bang = c.map(|v| {
                    let mut x: Vec<(String, Option<String>)> = v.into_iter().map(|i| (i.label, i.insert_text_snippet)).collect();
                    x.sort();
                    x
                });
            }
            res.offsets.insert((path.clone(), off), o);
        }
    }
    res.unknown_files = unknown;
    (res, panics)
}

/// Number of individual queries a result stands for.
pub fn query_count(r: &SweepResult) -> u64 {
    1 + r.files.values().map(|f| 4 + f.hints_sub.len() as u64).sum::<u64>() + 5 * r.offsets.len() as u64
}

/// First difference between two sweep results (for C07), as (kind, description).
pub fn first_difference(a: &SweepResult, b: &SweepResult) -> Option<(String, String)> {
    if a.diagnostics != b.diagnostics {
        let ka: BTreeSet<_> = a.diagnostics.keys().collect();
        let kb: BTreeSet<_> = b.diagnostics.keys().collect();
        if ka != kb {
            return Some(("workspace-files".into(), format!("workspace {:?} vs {:?}", ka, kb)));
        }
        for (k, v) in &a.diagnostics {
            if b.diagnostics.get(k) != Some(v) {
                return Some(("diagnostics".into(), format!("{}: {:?} vs {:?}", k, v, b.diagnostics.get(k))));
            }
        }
    }
    for (p, fa) in &a.files {
        let Some(fb) = b.files.get(p) else { return Some(("file-set".into(), format!("{} only on one side", p))) };
        if fa.symbols != fb.symbols {
            return Some(("document_symbol".into(), format!("{}: {:?} vs {:?}", p, fa.symbols, fb.symbols)));
        }
        if fa.folds != fb.folds {
            return Some(("folding_range".into(), format!("{}: {:?} vs {:?}", p, fa.folds, fb.folds)));
        }
        if fa.links != fb.links {
            return Some(("document_link".into(), format!("{}: {:?} vs {:?}", p, fa.links, fb.links)));
        }
        if fa.hints_full != fb.hints_full || fa.hints_sub != fb.hints_sub {
            return Some(("inlay_hint".into(), format!("{}: {:?} vs {:?}", p, fa.hints_full, fb.hints_full)));
        }
    }
    if a.files.len() != b.files.len() {
        return Some(("file-set".into(), "different file sets".into()));
    }
    for (k, oa) in &a.offsets {
        let Some(ob) = b.offsets.get(k) else { return Some(("offset-set".into(), format!("{:?} only on one side", k))) };
        if oa.goto != ob.goto {
            return Some(("goto_definition".into(), format!("{:?}: {:?} vs {:?}", k, oa.goto, ob.goto)));
        }
        if oa.refs != ob.refs {
            return Some(("references".into(), format!("{:?}: {:?} vs {:?}", k, oa.refs, ob.refs)));
        }
        if oa.hover != ob.hover {
            return Some(("hover".into(), format!("{:?}: {:?} vs {:?}", k, oa.hover, ob.hover)));
        }
        if oa.completion != ob.completion || oa.completion_bang != ob.completion_bang {
            return Some(("completion".into(), format!("{:?}: {:?} vs {:?}", k, oa.completion, ob.completion)));
        }
    }
    if a.offsets.len() != b.offsets.len() {
        return Some(("offset-set".into(), "different offset sets".into()));
    }
    None
}
