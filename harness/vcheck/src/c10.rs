//! C10 position mapping: LineIndex / to_proto::position / from_proto::position against `refpos`.
use crate::core::*;
use crate::refpos::RefPos;
use async_lsp::lsp_types::{Position, Range};
use ide::line_index::LineIndex;
use serde_json::{json, Value};
use text_size::{TextRange, TextSize};

pub struct C10;

const ALPHA: [&str; 9] = ["a", " ", "\n", "\r", "\u{e9}", "\u{20ac}", "\u{1d11e}", "\u{c}", "\u{2028}"];

fn class_of(text: &str) -> String {
    let mut v = Vec::new();
    if text.chars().any(|c| c.len_utf8() > 1 && c != '\u{2028}') {
        v.push("multibyte");
    }
    if text.contains('\u{c}') || text.contains('\u{2028}') || text.contains('\u{85}') || text.contains('\u{b}') || text.contains('\u{2029}') {
        v.push("non-terminator-break-char");
    }
    if text.contains("\r\n") {
        v.push("crlf");
    }
    if text.replace("\r\n", "").contains('\r') {
        v.push("cr");
    }
    if v.is_empty() {
        v.push("ascii-lf");
    }
    v.join("+")
}

fn case(text: &str, extra: Value) -> Value {
    json!({"kind": "text", "text": text, "detail": extra})
}

pub fn check_text(text: &str, ctx: &mut Ctx, full_positions: bool) {
    ctx.current_text(text);
    let rp = RefPos::new(text);
    let li = match guard(|| LineIndex::new(text)) {
        Ok(li) => li,
        Err(pi) => {
            ctx.eval();
            ctx.panic_violation("new:", &pi, case(text, json!({})));
            return;
        }
    };
    let cls = class_of(text);
    let nontrivial = cls != "ascii-lf" || !text.ends_with('\n');
    if nontrivial {
        ctx.nontrivial(fnv64(text.as_bytes()));
    }
    for f in cls.split('+') {
        ctx.feature(&format!("class:{}", f));
    }
    if !text.ends_with('\n') && !text.ends_with('\r') {
        ctx.feature("no_final_newline");
    }
    // offsets -> positions, and back
    let mut offsets: Vec<usize> = text.char_indices().map(|(i, _)| i).collect();
    offsets.push(text.len());
    for &off in &offsets {
        ctx.eval();
        let want = rp.to_line_col(off);
        let got = guard(|| lsp::to_proto::position(&li, TextSize::from(off as u32)));
        match got {
            Err(pi) => ctx.panic_violation(&format!("to_proto[{}]:", cls), &pi, case(text, json!({"offset": off}))),
            Ok(p) => {
                if (p.line, p.character) != want {
                    ctx.violation(
                        format!("to_proto:{}", cls),
                        format!("offset {} -> ({}, {}), reference says ({}, {})", off, p.line, p.character, want.0, want.1),
                        case(text, json!({"offset": off})),
                    );
                }
                // round trip (not demanded strictly inside a CRLF pair: the column lies past the line end there)
                if !rp.inside_crlf(off) {
                    match guard(|| lsp::from_proto::position(&li, p)) {
                        Err(pi) => ctx.panic_violation(&format!("roundtrip[{}]:", cls), &pi, case(text, json!({"offset": off}))),
                        Ok(back) => {
                            if usize::from(back) != off && (p.line, p.character) == want {
                                ctx.violation(
                                    format!("roundtrip:{}", cls),
                                    format!("offset {} -> ({}, {}) -> {}", off, p.line, p.character, usize::from(back)),
                                    case(text, json!({"offset": off})),
                                );
                            }
                        }
                    }
                }
                // the bare LineIndex API agrees on the line
                match guard(|| li.pos_to_line(TextSize::from(off as u32))) {
                    Ok(l) if l as u32 != want.0 => ctx.violation(
                        format!("pos_to_line:{}", cls),
                        format!("offset {} is on line {}, LineIndex says {}", off, want.0, l),
                        case(text, json!({"offset": off})),
                    ),
                    Err(pi) => ctx.panic_violation(&format!("pos_to_line[{}]:", cls), &pi, case(text, json!({"offset": off}))),
                    _ => {}
                }
            }
        }
    }
    // positions -> offsets: every (line, col) with col up to one past the width
    for line in 0..rp.line_count() {
        let w = rp.width16(line);
        match guard(|| li.line_to_pos(line)) {
            Ok(p) if usize::from(p) != rp.line_starts[line] => ctx.violation(
                format!("line_to_pos:{}", cls),
                format!("line {} starts at {}, LineIndex says {}", line, rp.line_starts[line], usize::from(p)),
                case(text, json!({"line": line})),
            ),
            Err(pi) => ctx.panic_violation(&format!("line_to_pos[{}]:", cls), &pi, case(text, json!({"line": line}))),
            _ => {}
        }
        let cols: Vec<u32> = if full_positions || w < 8 { (0..=w + 1).collect() } else { vec![0, 1, w / 2, w - 1, w, w + 1, w + 40] };
        for col in cols {
            let Some(want) = rp.from_line_col(line as u32, col) else { continue };
            ctx.eval();
            if col > w {
                ctx.feature("col_past_line_end");
            }
            match guard(|| lsp::from_proto::position(&li, Position::new(line as u32, col))) {
                Err(pi) => ctx.panic_violation(&format!("from_proto[{}]:", cls), &pi, case(text, json!({"line": line, "col": col}))),
                Ok(got) => {
                    if usize::from(got) != want {
                        let sub = if col > w { "clamp" } else { "inline" };
                        ctx.violation(
                            format!("from_proto:{}:{}", sub, cls),
                            format!("({}, {}) -> {}, reference says {}", line, col, usize::from(got), want),
                            case(text, json!({"line": line, "col": col})),
                        );
                    }
                }
            }
        }
    }
    // range conversions are the two endpoint conversions
    if offsets.len() >= 2 {
        let a = offsets[offsets.len() / 3];
        let b = offsets[offsets.len() * 2 / 3].max(a);
        ctx.eval();
        let want = (rp.to_line_col(a), rp.to_line_col(b));
        match guard(|| lsp::to_proto::range(&li, TextRange::new((a as u32).into(), (b as u32).into()))) {
            Err(pi) => ctx.panic_violation(&format!("to_proto_range[{}]:", cls), &pi, case(text, json!({"range": [a, b]}))),
            Ok(r) => {
                if ((r.start.line, r.start.character), (r.end.line, r.end.character)) != want {
                    ctx.violation(format!("to_proto_range:{}", cls), format!("range {}..{} -> {:?}, reference {:?}", a, b, r, want), case(text, json!({"range": [a, b]})));
                } else if !rp.inside_crlf(a) && !rp.inside_crlf(b) {
                    match guard(|| lsp::from_proto::range(&li, Range::new(r.start, r.end))) {
                        Ok(back) if (usize::from(back.start()), usize::from(back.end())) != (a, b) => {
                            ctx.violation(format!("roundtrip_range:{}", cls), format!("range {}..{} -> {:?} -> {:?}", a, b, r, back), case(text, json!({"range": [a, b]})))
                        }
                        Err(pi) => ctx.panic_violation(&format!("from_proto_range[{}]:", cls), &pi, case(text, json!({"range": [a, b]}))),
                        _ => {}
                    }
                }
            }
        }
    }
}

fn exhaustive_unit(a: usize, b: usize, maxlen: usize, ctx: &mut Ctx) {
    // all strings starting with ALPHA[a] ALPHA[b] of total length 2..=maxlen
    let mut s = String::new();
    for len in 2..=maxlen {
        let rest = len - 2;
        let total = 9usize.pow(rest as u32);
        for mut k in 0..total {
            s.clear();
            s.push_str(ALPHA[a]);
            s.push_str(ALPHA[b]);
            for _ in 0..rest {
                s.push_str(ALPHA[k % 9]);
                k /= 9;
            }
            check_text(&s, ctx, true);
            ctx.feature("exhaustive_strings");
        }
    }
}

const BOUNDARY_CHARS: [u32; 16] = [0x7f, 0x80, 0x7ff, 0x800, 0xd7ff, 0xe000, 0xfffd, 0xffff, 0x10000, 0x3ffff, 0x40000, 0x7ffff, 0x80000, 0xfffff, 0x100000, 0x10ffff];

fn random_text(rng: &mut Rng) -> String {
    let n = rng.range(10, 400);
    let mut s = String::new();
    let pool: &[&str] = &[
        "a", "b", "class", " ", " ", "\t", "\n", "\n", "\r\n", "\r", "\u{e9}", "\u{20ac}", "\u{1d11e}", "\u{c}", "\u{2028}", "\u{85}", "\u{b}", "\u{2029}", "x", "// c", "\"s\"", ";", "\u{80}", "\u{7ff}", "\u{800}", "\u{ffff}", "\u{10000}", "\u{100000}", "\u{10ffff}",
    ];
    for _ in 0..n {
        s.push_str(pool[rng.below(pool.len())]);
    }
    s
}

impl Check for C10 {
    fn id(&self) -> &'static str {
        "C10"
    }
    fn units(&self, tier: Tier, _seed: u64) -> u64 {
        1 + 81 + tier.pick(32, 320)
    }
    fn run_unit(&self, unit: u64, ctx: &mut Ctx) {
        let maxlen = ctx.tier.pick(5, 6);
        if unit == 0 {
            check_text("", ctx, true);
            for a in ALPHA {
                check_text(a, ctx, true);
                ctx.feature("exhaustive_strings");
            }
            ctx.feature("exhaustive_strings");
            // every character at a boundary of the UTF-8 / UTF-16 encodings (first and last code point of each
            // encoded length and of each UTF-8 lead byte of the 4-byte range), in a few line contexts
            for cp in BOUNDARY_CHARS {
                let c = char::from_u32(cp).unwrap();
                for t in [format!("{c}"), format!("a{c}b"), format!("{c}\n{c}"), format!("a\n{c}{c}b\r\n{c}x"), format!("\u{e9}{c}\u{1d11e}{c}\n")] {
                    check_text(&t, ctx, true);
                }
                ctx.feature("encoding_boundary_chars");
            }
            // corpus files: real line structures (LF), converted to CRLF and CR as well
            for f in crate::texts::corpus().iter().filter(|f| f.text.len() < 30_000) {
                check_text(&f.text, ctx, false);
                check_text(&f.text.replace('\n', "\r\n"), ctx, false);
                ctx.feature("corpus_texts");
            }
        } else if unit <= 81 {
            let u = (unit - 1) as usize;
            exhaustive_unit(u / 9, u % 9, maxlen, ctx);
            ctx.feature("exhaustive_units");
        } else {
            let mut rng = Rng::derive(ctx.seed, 0x10, unit);
            for i in 0..300 {
                let t = random_text(&mut rng);
                if i == 0 && ctx.want_sample() {
                    ctx.sample(json!({"random_text": t}));
                }
                check_text(&t, ctx, false);
                ctx.feature("random_texts");
            }
        }
    }
    fn replay(&self, case: &Value, ctx: &mut Ctx) {
        if let Some(t) = case["text"].as_str() {
            check_text(t, ctx, true);
        }
    }
    fn rule(&self) -> String {
        "BOUNDARY CHARACTERS: the first and last code point of every UTF-8 length, of both UTF-16 lengths and of each 4-byte lead byte (U+007F .. U+10FFFF, 16 characters), each in five line contexts, all positions. EXHAUSTIVE: every string of length <= 5 (thorough: <= 6) over {a, space, LF, CR, U+00E9, U+20AC, U+1D11E, FF, U+2028}; for each, every char-boundary offset is converted by lsp::to_proto::position (compared with the reference (line, UTF-16 column)), converted back by lsp::from_proto::position (round trip; not demanded strictly inside a CRLF pair), LineIndex::pos_to_line/line_to_pos are compared with the reference line table, and every (line, col) with col <= width+1 is converted by from_proto::position (col past the end must give the line end; columns splitting a surrogate pair are not demanded). SAMPLED: random mixed texts of 10-400 pieces also containing NEL, VT, PS; corpus files as LF and CRLF. Reference: refpos.rs (lines end at LF/CRLF/CR only). non-trivial = text has a multi-byte char, a CR/CRLF, a non-terminator break char, or no final newline; distinct by digest of the text".into()
    }
    fn floors(&self, tier: Tier) -> Vec<(&'static str, u64)> {
        vec![("exhaustive_units", 81), ("exhaustive_strings", tier.pick(66_000, 590_000)), ("col_past_line_end", 10_000), ("class:multibyte", 10_000), ("class:crlf", 1000), ("class:non-terminator-break-char", 1000), ("no_final_newline", 1000), ("encoding_boundary_chars", 16)]
    }
    fn exhaustive(&self, tier: Tier) -> Option<String> {
        let n: u64 = (0..=tier.pick(5u32, 6u32)).map(|l| 9u64.pow(l)).sum();
        Some(format!("all {} strings of length <= {} over the 9-character alphabet, x all char-boundary offsets x all (line, col<=width+1)", n, tier.pick(5, 6)))
    }
    fn assumptions(&self) -> Vec<String> {
        vec!["refpos.rs is the specification: LF, CRLF, CR terminate lines and nothing else; UTF-16 columns".into(), "lines beyond the last line and columns that split a surrogate pair are not demanded".into()]
    }
    fn technique(&self) -> &'static str {
        "differential monitor against an independent reference position mapper, exhaustive small-scope strings + random texts"
    }
}
