//! Sanitizer layer (thorough tier): the same code under the Miri interpreter (vmiri), under ThreadSanitizer
//! (this binary rebuilt with -Zsanitizer=thread) and under AddressSanitizer + libFuzzer (vfuzz targets that
//! embed the monitors). One sanitizer per build; a report is a violation only if its first in-repository frame
//! lies in crates/{syntax,ide,lsp}; everything else is recorded as a note.
use crate::core::{Agg, Violation, VERIF_ROOT};
use serde_json::json;
use std::process::{Command, Stdio};
use std::time::Instant;

fn harness_dir() -> String {
    format!("{}/harness", VERIF_ROOT)
}

fn first_repo_frame(text: &str) -> Option<String> {
    text.lines().find(|l| l.contains("/repo/crates/")).map(|l| {
        let i = l.find("/repo/crates/").unwrap();
        l[i + 13..].split(|c: char| c == ' ' || c == ')').next().unwrap_or("").trim_end_matches(|c: char| c == ':' || c.is_ascii_digit()).to_string()
    })
}

/// `vmiri <mode>` on `shards` processes of `count` inputs each
pub fn miri(mode: &str, seed: u64, shards: usize, count: usize, agg: &mut Agg) {
    let t0 = Instant::now();
    let run = |shard: usize| -> (i32, String, String) {
        let out = Command::new("cargo")
            .current_dir(harness_dir())
            .env("MIRIFLAGS", "-Zmiri-disable-stacked-borrows")
            .env("CARGO_NET_OFFLINE", "true")
            .args(["+nightly", "miri", "run", "-q", "-p", "vmiri", "--offline", "--", mode, &shard.to_string(), &shards.to_string(), &count.to_string(), &seed.to_string()])
            .stdin(Stdio::null())
            .output();
        match out {
            Ok(o) => (o.status.code().unwrap_or(-1), String::from_utf8_lossy(&o.stdout).to_string(), String::from_utf8_lossy(&o.stderr).to_string()),
            Err(e) => (-2, String::new(), format!("cannot run cargo miri: {}", e)),
        }
    };
    // the first shard also builds; the others then run in parallel
    let mut results = vec![run(0)];
    if results[0].0 == -2 || (results[0].0 != 0 && !results[0].1.contains("VMIRI") && !results[0].2.contains("Undefined Behavior") && results[0].2.contains("could not compile")) {
        agg.inconclusive.push(format!("Miri step could not be built/run: {}", results[0].2.lines().rev().take(3).collect::<Vec<_>>().join(" | ")));
        return;
    }
    let handles: Vec<_> = (1..shards).map(|s| std::thread::spawn(move || s)).collect();
    let mut joins = Vec::new();
    for h in handles {
        let s = h.join().unwrap();
        let mode = mode.to_string();
        joins.push(std::thread::spawn(move || {
            let out = Command::new("cargo")
                .current_dir(harness_dir())
                .env("MIRIFLAGS", "-Zmiri-disable-stacked-borrows")
                .env("CARGO_NET_OFFLINE", "true")
                .args(["+nightly", "miri", "run", "-q", "-p", "vmiri", "--offline", "--", &mode, &s.to_string(), &shards.to_string(), &count.to_string(), &seed.to_string()])
                .stdin(Stdio::null())
                .output();
            match out {
                Ok(o) => (o.status.code().unwrap_or(-1), String::from_utf8_lossy(&o.stdout).to_string(), String::from_utf8_lossy(&o.stderr).to_string()),
                Err(e) => (-2, String::new(), format!("{}", e)),
            }
        }));
    }
    for j in joins {
        results.push(j.join().unwrap());
    }
    let mut inputs = 0u64;
    let mut obs = 0u64;
    for (code, stdout, stderr) in &results {
        if let Some(l) = stdout.lines().find(|l| l.starts_with("VMIRI-OK")) {
            for part in l.split_whitespace() {
                if let Some(v) = part.strip_prefix("inputs=") {
                    inputs += v.parse::<u64>().unwrap_or(0);
                }
                if let Some(v) = part.strip_prefix("observations=") {
                    obs += v.parse::<u64>().unwrap_or(0);
                }
            }
            continue;
        }
        if let Some(l) = stdout.lines().find(|l| l.starts_with("VMIRI-VIOLATION")) {
            agg.violations.insert(
                format!("miri-run:monitor:{}", mode),
                Violation { signature: format!("miri-run:monitor:{}", mode), what: l.chars().take(600).collect(), case: json!({"kind": "miri", "line": l}) },
            );
            continue;
        }
        // an interpreter report
        let err_line = stderr.lines().find(|l| l.starts_with("error:")).unwrap_or("").to_string();
        if err_line.is_empty() && *code != 0 {
            agg.inconclusive.push(format!("a Miri shard exited with {} without a report: {}", code, stderr.lines().rev().take(2).collect::<Vec<_>>().join(" | ")));
            continue;
        }
        let frame = first_repo_frame(stderr);
        let kind: String = err_line.chars().filter(|c| !c.is_ascii_digit()).take(80).collect();
        match frame {
            Some(f) => {
                let sig = format!("miri:{}@{}", kind, f);
                agg.violations.insert(sig.clone(), Violation { signature: sig, what: format!("Miri reports {:?}; first frame in the repository: {}", err_line, f), case: json!({"kind": "miri", "mode": mode, "report": stderr.lines().filter(|l| !l.starts_with("warning")).take(40).collect::<Vec<_>>()}) });
            }
            None => agg.notes.push(format!("Miri report outside the repository's crates (not attributed): {}", err_line)),
        }
    }
    *agg.features.entry(format!("miri_{}_inputs", mode)).or_insert(0) += inputs;
    *agg.features.entry(format!("miri_{}_observations", mode)).or_insert(0) += obs;
    agg.evaluations += inputs;
    agg.notes.push(format!("Miri ({}): {} inputs on {} shards in {:.0}s, aliasing model off (rowan 0.16.1 fails Stacked and Tree Borrows by itself)", mode, inputs, shards, t0.elapsed().as_secs_f64()));
}

/// Rebuild this binary with ThreadSanitizer and run the given check's worker units under it.
pub fn tsan(id: &str, seed: u64, units: &[u64], agg: &mut Agg) {
    let t0 = Instant::now();
    let target_dir = format!("{}/target/tsan", VERIF_ROOT);
    let build = Command::new("cargo")
        .current_dir(harness_dir())
        .env("RUSTFLAGS", "-Zsanitizer=thread")
        .env("CARGO_NET_OFFLINE", "true")
        .args(["+nightly", "build", "-Zbuild-std", "--target", "x86_64-unknown-linux-gnu", "--release", "--offline", "-p", "vcheck", "--target-dir", &target_dir])
        .stdin(Stdio::null())
        .output();
    let bin = format!("{}/x86_64-unknown-linux-gnu/release/vcheck", target_dir);
    match build {
        Ok(o) if o.status.success() && std::path::Path::new(&bin).exists() => {}
        Ok(o) => {
            agg.inconclusive.push(format!("ThreadSanitizer build failed: {}", String::from_utf8_lossy(&o.stderr).lines().rev().take(3).collect::<Vec<_>>().join(" | ")));
            return;
        }
        Err(e) => {
            agg.inconclusive.push(format!("ThreadSanitizer build could not be started: {}", e));
            return;
        }
    }
    let mut reports = 0u64;
    let mut ran = 0u64;
    let joins: Vec<_> = units
        .iter()
        .map(|u| {
            let (bin, id, u) = (bin.clone(), id.to_string(), *u);
            std::thread::spawn(move || {
                Command::new(&bin)
                    .env("TSAN_OPTIONS", "halt_on_error=0 second_deadlock_stack=1 report_signal_unsafe=0")
                    .env("VCHECK_SINGLE_UNIT", u.to_string())
                    .args([&id, "--tier", "quick", "--seed", &seed.to_string(), "--worker", "0/1"])
                    .stdin(Stdio::null())
                    .output()
            })
        })
        .collect();
    for j in joins {
        let Ok(Ok(o)) = j.join() else { continue };
        ran += 1;
        let stderr = String::from_utf8_lossy(&o.stderr).to_string();
        // the worker's own verdict lines (wait-for monitor etc.) count as usual
        for l in String::from_utf8_lossy(&o.stdout).lines() {
            if let Some(rest) = l.strip_prefix("V ") {
                if let Ok(v) = serde_json::from_str::<serde_json::Value>(rest) {
                    let sig = format!("under-tsan:{}", v["signature"].as_str().unwrap_or("?"));
                    agg.violations.insert(sig.clone(), Violation { signature: sig, what: v["what"].as_str().unwrap_or("").to_string(), case: v["case"].clone() });
                }
            }
        }
        for block in stderr.split("WARNING: ThreadSanitizer:").skip(1) {
            reports += 1;
            let kind = block.lines().next().unwrap_or("").split('(').next().unwrap_or("").trim().to_string();
            match first_repo_frame(block) {
                Some(f) => {
                    let sig = format!("tsan:{}@{}", kind, f);
                    agg.violations.insert(
                        sig.clone(),
                        Violation { signature: sig, what: format!("ThreadSanitizer: {} with a frame in {}", kind, f), case: json!({"kind": "tsan", "report": block.lines().take(40).collect::<Vec<_>>()}) },
                    );
                }
                None => {
                    if agg.notes.len() < 30 {
                        agg.notes.push(format!("ThreadSanitizer report without a frame in the repository's crates (not attributed): {}", kind));
                    }
                }
            }
        }
    }
    *agg.features.entry("tsan_units".into()).or_insert(0) += ran;
    *agg.features.entry("tsan_report_blocks".into()).or_insert(0) += reports;
    agg.evaluations += ran;
    agg.notes.push(format!("ThreadSanitizer: {} worker units of {} re-run on the instrumented build (-Zbuild-std) in {:.0}s, {} report blocks", ran, id, t0.elapsed().as_secs_f64(), reports));
}

/// ASan + libFuzzer on a vfuzz target for `secs` seconds; crash artifacts are judged by `judge` (the native
/// monitor); a crash the native monitor does not reproduce is attributed by its sanitizer summary line.
pub fn fuzz(target: &str, secs: u64, agg: &mut Agg, judge: &dyn Fn(&[u8]) -> Vec<(String, String)>) {
    fuzz_with_env(target, secs, &[], agg, judge)
}
pub fn fuzz_with_env(target: &str, secs: u64, env: &[(&str, &str)], agg: &mut Agg, judge: &dyn Fn(&[u8]) -> Vec<(String, String)>) {
    let t0 = Instant::now();
    let dir = format!("{}/harness/vfuzz", VERIF_ROOT);
    let work = format!("{}/target/work/fuzz/{}", VERIF_ROOT, target);
    let _ = std::fs::remove_dir_all(&work);
    let _ = std::fs::create_dir_all(format!("{}/corpus", work));
    let _ = std::fs::create_dir_all(format!("{}/artifacts", work));
    // seed corpus: small corpus files and the hand-written snippets
    for f in crate::texts::corpus().iter().filter(|f| f.text.len() < 20_000) {
        let _ = std::fs::write(format!("{}/corpus/{}", work, f.name), &f.text);
    }
    for (i, s) in crate::texts::SNIPPETS.iter().enumerate() {
        let _ = std::fs::write(format!("{}/corpus/snippet{}", work, i), s);
    }
    let out = Command::new("cargo")
        .current_dir(&dir)
        .env("CARGO_NET_OFFLINE", "true")
        .env("CARGO_TARGET_DIR", format!("{}/target/fuzz", VERIF_ROOT))
        .envs(env.iter().map(|(k, v)| (k.to_string(), v.to_string())))
        .args(["+nightly", "fuzz", "run", target, &format!("{}/corpus", work), "--", &format!("-max_total_time={}", secs), "-fork=16", "-timeout=10", "-len_control=0", "-ignore_crashes=1", &format!("-artifact_prefix={}/artifacts/", work)])
        .stdin(Stdio::null())
        .output();
    let Ok(o) = out else {
        agg.inconclusive.push("cargo fuzz could not be started".into());
        return;
    };
    let stderr = String::from_utf8_lossy(&o.stderr).to_string();
    if stderr.contains("could not compile") || stderr.contains("error: failed to build") {
        agg.inconclusive.push(format!("fuzz target {} does not build: {}", target, stderr.lines().rev().take(3).collect::<Vec<_>>().join(" | ")));
        return;
    }
    let execs: u64 = stderr.lines().rev().find_map(|l| l.strip_prefix("#").and_then(|r| r.split(':').next()).and_then(|n| n.trim().parse().ok())).unwrap_or(0);
    let mut crashes = 0u64;
    if let Ok(rd) = std::fs::read_dir(format!("{}/artifacts", work)) {
        for e in rd.flatten() {
            let name = e.file_name().to_string_lossy().to_string();
            if !(name.starts_with("crash-") || name.starts_with("timeout-") || name.starts_with("oom-")) {
                continue;
            }
            crashes += 1;
            let bytes = std::fs::read(e.path()).unwrap_or_default();
            let verdicts = judge(&bytes);
            if verdicts.is_empty() {
                let summary = stderr.lines().find(|l| l.contains("SUMMARY: AddressSanitizer") || l.contains("ERROR: AddressSanitizer")).unwrap_or("libFuzzer artifact not reproduced by the native monitor").to_string();
                let sig = format!("fuzz:{}:{}", name.split('-').next().unwrap_or(""), summary.chars().filter(|c| !c.is_ascii_digit()).take(80).collect::<String>());
                agg.violations.insert(sig.clone(), Violation { signature: sig, what: summary, case: json!({"kind": "text", "text": String::from_utf8_lossy(&bytes)}) });
            }
            for (sig, what) in verdicts {
                agg.violations.insert(sig.clone(), Violation { signature: sig, what, case: json!({"kind": "text", "text": String::from_utf8_lossy(&bytes)}) });
            }
        }
    }
    *agg.features.entry(format!("fuzz_{}_execs", target)).or_insert(0) += execs;
    *agg.features.entry(format!("fuzz_{}_artifacts", target)).or_insert(0) += crashes;
    agg.evaluations += execs;
    agg.notes.push(format!("ASan+libFuzzer target {}: {} executions in {:.0}s on 16 forks, {} artifacts", target, execs, t0.elapsed().as_secs_f64(), crashes));
    let _ = std::fs::remove_dir_all(&work);
}
