//! C16 include graphs: termination, exact reachability, links, not-found diagnostics, single indexing.
use crate::core::*;
use crate::ws::{self, Workspace};
use serde_json::{json, Value};
use std::collections::{BTreeMap, BTreeSet};

pub struct C16;

/// One include statement of a generated file.
#[derive(Clone, Debug)]
struct Inc {
    written: String,          // the path as written in the include statement
    stmt: (usize, usize),     // byte range of the whole statement
    lit: (usize, usize),      // byte range of the string literal
    target: Option<String>,   // absolute path it must resolve to (reference), None = must be reported missing
}
#[derive(Clone, Debug)]
struct GFile {
    path: String,
    text: String,
    class: String,
    incs: Vec<Inc>,
}
#[derive(Clone, Debug)]
struct Graph {
    files: Vec<GFile>,
    root: usize,
    include_dir: Option<String>,
}

fn render_file(path: &str, class: &str, incs: &[(String, Option<String>)], class_first: bool) -> GFile {
    let mut text = format!("// {}\n", path);
    let mut out = Vec::new();
    let decl = format!("class {} {{ int v = 1; }}\n", class);
    if class_first {
        text.push_str(&decl);
    }
    for (written, target) in incs {
        let s = text.len();
        text.push_str("include ");
        let ls = text.len();
        text.push_str(&format!("\"{}\"", written));
        let le = text.len();
        out.push(Inc { written: written.clone(), stmt: (s, le), lit: (ls, le), target: target.clone() });
        text.push('\n');
    }
    if !class_first {
        text.push_str(&decl);
    }
    GFile { path: path.to_string(), text, class: class.to_string(), incs: out }
}

/// plain graph over n files in one directory; bit (i*n+j) of `edges` = file i includes file j
fn plain_graph(n: usize, edges: u64, root: usize) -> Graph {
    let mut files = Vec::new();
    for i in 0..n {
        let mut incs = Vec::new();
        for j in 0..n {
            if edges >> (i * n + j) & 1 == 1 {
                incs.push((format!("f{}.td", j), Some(format!("/ws/f{}.td", j))));
            }
        }
        files.push(render_file(&format!("/ws/f{}.td", i), &format!("C_{}", i), &incs, false));
    }
    Graph { files, root, include_dir: None }
}

fn random_graph(rng: &mut Rng) -> Graph {
    // files live in /ws, /ws/sub and /inc (search path); names may collide between /ws and /inc (local wins)
    let n = rng.range(3, 6);
    let dirs = ["/ws", "/ws", "/ws/sub", "/inc"];
    let mut paths: Vec<String> = Vec::new();
    for i in 0..n {
        let d = if i == 0 { "/ws" } else { dirs[rng.below(dirs.len())] };
        paths.push(format!("{}/g{}.td", d, i));
    }
    // optional shadow: a file in /inc with the same bare name as a /ws file (must never be chosen from /ws)
    let shadow = if rng.chance(1, 3) {
        paths.iter().find(|p| p.starts_with("/ws/g")).map(|p| format!("/inc/{}", p.rsplit('/').next().unwrap()))
    } else {
        None
    };
    let use_inc_dir = rng.chance(3, 4);
    let exists: BTreeSet<String> = paths.iter().cloned().chain(shadow.iter().cloned()).collect();
    let resolve = |from: &str, written: &str| -> Option<String> {
        let dir = from.rsplitn(2, '/').nth(1).unwrap_or("");
        let cand = format!("{}/{}", dir, written);
        if exists.contains(&cand) {
            return Some(cand);
        }
        if use_inc_dir {
            let cand = format!("/inc/{}", written);
            if exists.contains(&cand) {
                return Some(cand);
            }
        }
        None
    };
    let mut files = Vec::new();
    let mut all_paths = paths.clone();
    if let Some(s) = &shadow {
        all_paths.push(s.clone());
    }
    for (i, p) in all_paths.iter().enumerate() {
        let mut incs = Vec::new();
        let k = rng.below(4);
        for _ in 0..k {
            let written = match rng.below(8) {
                0 => format!("missing{}.td", rng.below(3)),
                1 => "sub/".to_string() + &format!("g{}.td", rng.below(n)),
                _ => format!("g{}.td", rng.below(n)),
            };
            let target = resolve(p, &written);
            incs.push((written, target));
        }
        let class = if Some(p) == shadow.as_ref() { format!("Shadow_{}", i) } else { format!("C_{}", i) };
        files.push(render_file(p, &class, &incs, rng.chance(1, 2)));
    }
    Graph { files, root: 0, include_dir: if use_inc_dir { Some("/inc".to_string()) } else { None } }
}

fn reachable(g: &Graph) -> BTreeSet<String> {
    let by_path: BTreeMap<&str, &GFile> = g.files.iter().map(|f| (f.path.as_str(), f)).collect();
    let mut seen = BTreeSet::new();
    let mut stack = vec![g.files[g.root].path.clone()];
    while let Some(p) = stack.pop() {
        if !seen.insert(p.clone()) {
            continue;
        }
        if let Some(f) = by_path.get(p.as_str()) {
            for inc in &f.incs {
                if let Some(t) = &inc.target {
                    stack.push(t.clone());
                }
            }
        }
    }
    seen
}

fn graph_case(g: &Graph) -> Value {
    let w = Workspace { files: g.files.iter().map(|f| (f.path.clone(), f.text.clone())).collect(), root: g.root };
    let mut v = w.to_json();
    v["include_dir"] = json!(g.include_dir);
    v["kind"] = json!("include_graph");
    v["expect"] = json!(g.files.iter().map(|f| json!({"path": f.path, "class": f.class, "includes": f.incs.iter().map(|i| json!({"written": i.written, "stmt": [i.stmt.0, i.stmt.1], "lit": [i.lit.0, i.lit.1], "target": i.target})).collect::<Vec<_>>()})).collect::<Vec<_>>());
    v
}

fn graph_from_case(v: &Value) -> Option<Graph> {
    let root_path = v["root"].as_str()?;
    let mut files = Vec::new();
    let mut root = 0;
    for (k, e) in v["expect"].as_array()?.iter().enumerate() {
        let path = e["path"].as_str()?.to_string();
        if path == root_path {
            root = k;
        }
        let text = v["files"][&path].as_str()?.to_string();
        let incs = e["includes"]
            .as_array()?
            .iter()
            .filter_map(|i| {
                Some(Inc {
                    written: i["written"].as_str()?.to_string(),
                    stmt: (i["stmt"][0].as_u64()? as usize, i["stmt"][1].as_u64()? as usize),
                    lit: (i["lit"][0].as_u64()? as usize, i["lit"][1].as_u64()? as usize),
                    target: i["target"].as_str().map(|s| s.to_string()),
                })
            })
            .collect();
        files.push(GFile { path, text, class: e["class"].as_str()?.to_string(), incs });
    }
    Some(Graph { files, root, include_dir: v["include_dir"].as_str().map(|s| s.to_string()) })
}

fn shape(g: &Graph) -> &'static str {
    // coarse class of the graph for signatures
    let by_path: BTreeMap<&str, usize> = g.files.iter().enumerate().map(|(i, f)| (f.path.as_str(), i)).collect();
    let n = g.files.len();
    let mut adj = vec![vec![]; n];
    for (i, f) in g.files.iter().enumerate() {
        for inc in &f.incs {
            if let Some(t) = &inc.target {
                if let Some(&j) = by_path.get(t.as_str()) {
                    adj[i].push(j);
                }
            }
        }
    }
    if (0..n).any(|i| adj[i].contains(&i)) {
        return "self-loop";
    }
    // cycle detection
    fn dfs(u: usize, adj: &Vec<Vec<usize>>, st: &mut Vec<u8>) -> bool {
        st[u] = 1;
        for &v in &adj[u] {
            if st[v] == 1 || (st[v] == 0 && dfs(v, adj, st)) {
                return true;
            }
        }
        st[u] = 2;
        false
    }
    let mut st = vec![0u8; n];
    if (0..n).any(|i| st[i] == 0 && dfs(i, &adj, &mut st)) {
        return "cycle";
    }
    // multi-path (diamond / duplicate include)
    let mut indeg = vec![0usize; n];
    for a in &adj {
        for &j in a {
            indeg[j] += 1;
        }
    }
    if indeg.iter().any(|&d| d > 1) {
        return "multi-path";
    }
    "tree"
}

fn check_graph(g: &Graph, ctx: &mut Ctx) {
    ctx.eval();
    let case = graph_case(g);
    ctx.current_json(&case);
    let sh = shape(g);
    ctx.feature(&format!("shape:{}", sh));
    if sh != "tree" || g.files.iter().any(|f| f.incs.iter().any(|i| i.target.is_none())) || g.include_dir.is_some() {
        ctx.nontrivial(fnv64(case.to_string().as_bytes()));
    }
    match &g.include_dir {
        Some(d) => std::env::set_var("INCLUDE_DIR", d),
        None => std::env::remove_var("INCLUDE_DIR"),
    }
    let w = Workspace { files: g.files.iter().map(|f| (f.path.clone(), f.text.clone())).collect(), root: g.root };
    // termination: traversal + parsing of <= 7 tiny files needs a few hundred steps; 200k is generous
    syntax::verif::arm(200_000);
    let loaded = guard(|| ws::load(&w));
    let steps = syntax::verif::disarm();
    ctx.metric_max("set_root_steps_max", steps as f64);
    let l = match loaded {
        Ok(l) => l,
        Err(pi) => {
            if pi.is_budget() {
                ctx.violation(format!("set-root-does-not-terminate:{}", sh), "collect_sources exceeded its step budget (no progress)".to_string(), case);
            } else {
                ctx.panic_violation(&format!("set-root[{}]:", sh), &pi, case);
            }
            return;
        }
    };
    let a = l.analysis();
    syntax::verif::arm(400_000);
    let diags = guard(|| a.diagnostics());
    syntax::verif::disarm();
    let diags = match diags {
        Ok(d) => d,
        Err(pi) => {
            if pi.is_budget() {
                ctx.violation(format!("index-does-not-terminate:{}", sh), "indexing exceeded its step budget".to_string(), case);
            } else {
                ctx.panic_violation(&format!("index[{}]:", sh), &pi, case);
            }
            return;
        }
    };
    // 1. workspace == reachable set
    let want = reachable(g);
    let got: BTreeSet<String> = diags.keys().filter_map(|id| l.fs.path_of(*id)).collect();
    if got != want {
        let extra: Vec<_> = got.difference(&want).collect();
        let missing: Vec<_> = want.difference(&got).collect();
        ctx.violation(
            format!("workspace-not-reachable-set:{}:{}", sh, if !missing.is_empty() { "missing" } else { "extra" }),
            format!("workspace {:?}; reachable {:?}; missing {:?}; extra {:?}", got, want, missing, extra),
            case.clone(),
        );
    }
    // 2. per reachable file: links, not-found diagnostics, single indexing
    for f in &g.files {
        if !want.contains(&f.path) {
            continue;
        }
        let Some(fid) = l.fs.id_of(&f.path) else {
            ctx.violation(format!("reachable-file-unknown:{}", sh), format!("{} has no file id", f.path), case.clone());
            continue;
        };
        let links = match guard(|| a.document_link(fid)) {
            Ok(x) => x.unwrap_or_default(),
            Err(pi) => {
                ctx.panic_violation("document_link:", &pi, case.clone());
                continue;
            }
        };
        let got_links: BTreeSet<(usize, usize, String)> =
            links.iter().map(|k| (usize::from(k.range.start()), usize::from(k.range.end()), l.fs.path_of(k.target).unwrap_or_default())).collect();
        let want_links: BTreeSet<(usize, usize, String)> = f.incs.iter().filter_map(|i| i.target.as_ref().map(|t| (i.lit.0, i.lit.1, t.clone()))).collect();
        if got_links != want_links {
            let wrong_target = got_links.iter().any(|(s, e, t)| want_links.iter().any(|(ws_, we, wt)| ws_ == s && we == e && wt != t));
            ctx.violation(
                format!("links:{}", if wrong_target { "wrong-target" } else if got_links.len() < want_links.len() { "missing" } else { "different" }),
                format!("{}: links {:?}, expected {:?}", f.path, got_links, want_links),
                case.clone(),
            );
        }
        ctx.feature_n("include_statements", f.incs.len() as u64);
        let fdiags = diags.get(&fid).cloned().unwrap_or_default();
        for inc in &f.incs {
            let covering = fdiags.iter().any(|d| {
                let (s, e) = (usize::from(d.location.range.start()), usize::from(d.location.range.end()));
                s < inc.stmt.1 && e > inc.stmt.0 && d.message.to_lowercase().contains("not found")
            });
            if inc.target.is_none() {
                ctx.feature("unresolvable_includes");
                if !covering {
                    ctx.violation("not-found-diagnostic-missing", format!("{}: include \"{}\" does not resolve but no not-found diagnostic covers it ({:?})", f.path, inc.written, fdiags), case.clone());
                }
            } else if covering {
                ctx.violation("not-found-diagnostic-spurious", format!("{}: include \"{}\" resolves but is reported as not found", f.path, inc.written), case.clone());
            }
        }
        // declarations of the file indexed exactly once
        let syms = match guard(|| a.document_symbol(fid)) {
            Ok(x) => x.unwrap_or_default(),
            Err(pi) => {
                ctx.panic_violation("document_symbol:", &pi, case.clone());
                continue;
            }
        };
        let count = syms.iter().filter(|s| s.name.as_str() == f.class).count();
        if count != 1 {
            ctx.violation(
                format!("indexed-{}-times:{}", if count == 0 { "zero".to_string() } else { "several".to_string() }, sh),
                format!("{}: class {} appears {} times in the outline", f.path, f.class, count),
                case.clone(),
            );
        }
    }
    if ctx.want_sample() && sh != "tree" {
        ctx.sample(json!({"shape": sh, "files": g.files.iter().map(|f| json!({"path": f.path, "text": f.text})).collect::<Vec<_>>(), "root": g.files[g.root].path}));
    }
}

impl Check for C16 {
    fn id(&self) -> &'static str {
        "C16"
    }
    fn units(&self, tier: Tier, _seed: u64) -> u64 {
        // unit 0: n<=3 all roots; units 1..=64: n=4 slices (root 0 in quick, all roots in thorough); then random
        1 + 64 + tier.pick(64, 320)
    }
    fn run_unit(&self, unit: u64, ctx: &mut Ctx) {
        if unit == 0 {
            for n in 1..=3usize {
                for edges in 0..(1u64 << (n * n)) {
                    for root in 0..n {
                        check_graph(&plain_graph(n, edges, root), ctx);
                    }
                }
            }
            ctx.feature("exhaustive_units");
        } else if unit <= 64 {
            let slice = unit - 1; // top 6 bits of the 16-bit edge set
            for low in 0..(1u64 << 10) {
                let edges = (slice << 10) | low;
                let roots = ctx.tier.pick(1usize, 4usize);
                for root in 0..roots {
                    check_graph(&plain_graph(4, edges, root), ctx);
                }
            }
            ctx.feature("exhaustive_units");
        } else {
            let mut rng = Rng::derive(ctx.seed, 0x16, unit);
            for _ in 0..400 {
                let g = random_graph(&mut rng);
                check_graph(&g, ctx);
                ctx.feature("random_graphs");
                if g.include_dir.is_some() {
                    ctx.feature("with_search_path");
                }
            }
        }
    }
    fn replay(&self, case: &Value, ctx: &mut Ctx) {
        if let Some(g) = graph_from_case(case) {
            check_graph(&g, ctx);
        }
    }
    fn rule(&self) -> String {
        "EXHAUSTIVE: every edge set (self-loops included) over 1, 2 and 3 files x every root, and all 65 536 edge sets over 4 files (root f0 in quick - roots are symmetric up to relabelling except for statement order - every root in thorough); file i holds one include line per edge and one class C_i. SAMPLED: random graphs of 3-6 files spread over /ws, /ws/sub and a search-path directory /inc (INCLUDE_DIR set or not), with missing targets, a same-named shadow file in /inc that the local file must win over, duplicate includes. Monitors per graph: set_root within a step budget (hook counter; no wall clock), keys of diagnostics() == reference reachable set, document_link(file) == {(string-literal range, resolved path)} for every reachable file, a 'not found' diagnostic overlapping exactly the unresolvable statements, class C_i exactly once in document_symbol(file i). non-trivial = graph is not a tree (self-loop, cycle, multi-path) or has missing targets / a search path; distinct by digest of all file texts + root".into()
    }
    fn floors(&self, tier: Tier) -> Vec<(&'static str, u64)> {
        vec![("exhaustive_units", 65), ("shape:self-loop", 10_000), ("shape:cycle", 1000), ("shape:multi-path", 500), ("unresolvable_includes", tier.pick(1000, 10_000)), ("with_search_path", 1000)]
    }
    fn exhaustive(&self, tier: Tier) -> Option<String> {
        Some(format!("all edge sets over <=3 files x all roots (2+32+1536 workspaces) and all 65536 edge sets over 4 files x {} root(s)", tier.pick(1, 4)))
    }
    fn assumptions(&self) -> Vec<String> {
        vec!["reference resolution order: the including file's directory first, then INCLUDE_DIR (as file_system.rs documents it)".into(), "an unresolvable include is recognised as reported if a diagnostic overlapping the statement says 'not found'".into()]
    }
    fn technique(&self) -> &'static str {
        "reference-model monitor (graph reachability) + hook step budget over exhaustive small include graphs and random larger ones"
    }
}
