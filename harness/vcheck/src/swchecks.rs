//! C03 (analysis totality), C06 (definition/reference coherence), C17 (range validity): monitors over the
//! query sweep on workspace states a user types through.
use crate::core::*;
use crate::gprog;
use crate::sweep::{self, SweepOptions, SweepResult};
use crate::texts;
use crate::ws::{self, Workspace};
use serde_json::{json, Value};
use std::collections::BTreeMap;
use syntax::syntax_kind::SyntaxKind;

#[derive(Clone, Copy, PartialEq, Eq)]
pub enum SMode {
    Totality,
    Coherence,
    Ranges,
}
pub struct SwCheck {
    pub mode: SMode,
}
impl SwCheck {
    fn mode_is_ranges(&self) -> bool {
        self.mode == SMode::Ranges
    }
    /// "Does not hang" for nesting: for every nestable construct, nested in its first and in its last position, the
    /// thread CPU time of loading the workspace and computing its diagnostics at depths 10, 14 and 18 (minimum of
    /// three runs). Polynomial work grows by a small factor per step of 4 levels ((14/10)^3 = 2.7); work that
    /// doubles per level grows 16-fold. Two consecutive ratios >= 8 (the larger runs long enough to measure), or one
    /// ratio >= 64, is a violation: the analysis would not return for the nesting depths real files reach.
    fn nesting_growth(&self, ctx: &mut Ctx) {
        fn cpu_ns() -> u64 {
            let mut ts = libc::timespec { tv_sec: 0, tv_nsec: 0 };
            unsafe { libc::clock_gettime(libc::CLOCK_THREAD_CPUTIME_ID, &mut ts) };
            ts.tv_sec as u64 * 1_000_000_000 + ts.tv_nsec as u64
        }
        fn measure(text: &str) -> Option<u64> {
            let w = Workspace::single(text);
            let mut best = u64::MAX;
            for _ in 0..3 {
                let t0 = cpu_ns();
                let r = guard(|| {
                    let l = ws::load(&w);
                    l.analysis().diagnostics().len()
                });
                let dt = cpu_ns() - t0;
                if r.is_err() {
                    return None; // a panic is the sweep's business
                }
                best = best.min(dt);
            }
            Some(best)
        }
        // (name, prefix, open, seed, close, suffix): text = prefix open^d seed close^d suffix
        let shapes: [(&str, &str, &str, &str, &str, &str); 16] = [
            ("list-first", "defvar v = ", "[", "1", ", 2]", ";\n"),
            ("list-last", "defvar v = ", "[2, ", "1", "]", ";\n"),
            ("list-only", "defvar v = ", "[", "1", "]", ";\n"),
            ("dag-arg", "def op;\ndefvar v = ", "(op ", "1", ", 2)", ";\n"),
            ("dag-last", "def op;\ndefvar v = ", "(op 2, ", "1", ")", ";\n"),
            ("add-first", "defvar v = ", "!add(", "1", ", 2)", ";\n"),
            ("add-last", "defvar v = ", "!add(2, ", "1", ")", ";\n"),
            ("if-then", "defvar v = ", "!if(true, ", "1", ", 2)", ";\n"),
            ("if-else", "defvar v = ", "!if(false, 2, ", "1", ")", ";\n"),
            ("cond", "defvar v = ", "!cond(true: ", "1", ")", ";\n"),
            ("foreach-body", "defvar v = ", "!foreach(x, [1], ", "1", ")", ";\n"),
            ("foldl-body", "defvar v = ", "!foldl(0, [1], a, b, ", "1", ")", ";\n"),
            ("paste", "defvar v = ", "\"a\" # (", "\"b\"", ")", ";\n"),
            ("class-ref", "class A<int x> { int f = x; }\ndefvar v = ", "A<", "1", ">.f", ";\n"),
            ("stmt-if", "", "if true then { ", "def d;", " }", "\n"),
            ("stmt-foreach-let", "class C { int f = 1; }\n", "foreach i = [1] in let f = 2 in { ", "def : C;", " }", "\n"),
        ];
        for (name, prefix, open, seed, close, suffix) in shapes {
            let text = |d: usize| format!("{}{}{}{}{}", prefix, open.repeat(d), seed, close.repeat(d), suffix);
            ctx.eval();
            ctx.current_text(&text(18));
            let mut verdict: Option<String> = None;
            if let (Some(t10), Some(t14)) = (measure(&text(10)), measure(&text(14))) {
                let r1 = t14 as f64 / t10.max(1) as f64;
                ctx.metric_max("nesting_growth_ratio_per_4_levels_max", r1);
                if r1 >= 64.0 && t14 >= 20_000_000 {
                    verdict = Some(format!("depth 10: {} us, depth 14: {} us (x{:.0})", t10 / 1000, t14 / 1000, r1));
                } else if let Some(t18) = measure(&text(18)) {
                    let r2 = t18 as f64 / t14.max(1) as f64;
                    ctx.metric_max("nesting_growth_ratio_per_4_levels_max", r2);
                    if r1 >= 8.0 && r2 >= 8.0 && t18 >= 20_000_000 {
                        // once more, to be sure
                        if let (Some(a), Some(b)) = (measure(&text(14)), measure(&text(18))) {
                            if b as f64 / a.max(1) as f64 >= 8.0 {
                                verdict = Some(format!("depth 10: {} us, depth 14: {} us (x{:.0}), depth 18: {} us (x{:.0})", t10 / 1000, t14 / 1000, r1, t18 / 1000, r2));
                            }
                        }
                    }
                }
            }
            ctx.feature("nesting_growth_shapes");
            ctx.nontrivial(fnv64(name.as_bytes()) ^ 0x77);
            if let Some(v) = verdict {
                ctx.violation(
                    format!("nesting:exponential-work:{}", name),
                    format!("diagnostics of a {}-nest: {} - the work multiplies with every level (polynomial work grows about 3-fold per 4 levels)", name, v),
                    case_of(&Workspace::single(&text(18)), "nesting-growth"),
                );
            }
        }
    }
}

/// the included file of the fuzz target harness/vfuzz/fuzz/fuzz_targets/ide_sweep.rs
pub const FUZZ_INC: &str = "class Base<int p = 1> { int f = p; }\nmulticlass M<int a> { def _x : Base<a>; }\ndefvar gv = [1, 2];\n";

/// Semantic stress patterns: self/mutual references, redefinitions, shadowing, odd nestings.
pub const STRESS: &[&str] = &[
    "class A : A;\nclass B { A a; int y = a.zz; }\n",
    "class A : B;\nclass B : A;\ndef d : A { int q = zz; let w = 1; }\n",
    "class A : B, A;\nclass B : A, B { int f; }\ndef d : B { let f = 1; int g = f; }\n",
    "class Foo : FooBar;\nclass FooBar : Foo;\nclass FooBarBaz : FooBar { int x = nope; }\n",
    "class A { A self; int y = self.self.self.y; }\ndef a : A;\ndefvar v = a.self.y;\n",
    "class A;\nclass A;\nclass A<int x> { int x = x; }\ndef A;\ndef A : A<1>;\ndef A { int A = 1; }\n",
    "class A<int x, int x = x> { int x = x; let x = x; }\ndef d : A<1, 2> { let x = 3; let x = 4; }\n",
    "def d { int f; int f = f; let f = f; let g = 2; defvar f = f; defvar f = 1; }\n",
    "multiclass M : M { def a; defm b : M; }\ndefm q : M;\ndefm q : M;\ndefm : Undefined, M;\ndefm x : x;\n",
    "multiclass M<int a> { def _x { int v = a; } }\nmulticlass N<int a> : M<a> { defm _y : M<a>; }\ndefm top : N<1>, M<2>;\n",
    "foreach i = i in def a # i;\nforeach i = [1] in foreach i = [i] in def b # i { int v = i; }\n",
    "defset list<A> s = {\n  defset list<A> t = { def x; }\n  def y : s;\n}\nclass A;\ndefvar n = !size(s) # t;\n",
    "def a { defvar v = v; int w = v; }\ndefvar v = v;\ndefvar v = 1;\ndefvar v = \"s\";\ndef b { int q = v; }\n",
    "class A<A a>;\nclass B<B b = B<>> : B<b>;\ndef d : B<d>;\n",
    "let x = x in def x { int x = x; }\nlet y = 1, y = 2 in { let y = 3 in def z { int y; } }\n",
    "if x then def a; else def a;\nif !eq(a, a) then { defvar a = 1; def a; } else if a then def a;\n",
    "def d { int x = !foreach(x, [x], x); int y = !foldl(y, [y], y, y, y); list<int> z = !filter(z, z, z); }\n",
    "def d { int x = !cond(x: x, 1: !cond()); dag g = (d d:$d, $d, (d)); string s = \"a\" # s # d # 1; }\n",
    "class C<int a, int b = 1>;\ndef d1 : C<>;\ndef d2 : C<1, 2, 3>;\ndef d3 : C<\"s\", [1]>;\ndef d4 : C<b = 1>;\ndef d5 : C<1, a = 2>;\ndef d6 { C f = C<1>; C g = C; int h = C<1>.a; }\n",
    "def d { bits<4> b = {1, 0}; bit c = b{9}; bits<2> e = b{0-1}{0}; list<int> l = [1][0...1][0]; int x = l[0][0]; let b{0} = 1; }\n",
    "class A { int f = 1; }\nclass B : A { let f = 2; }\nclass C : B { let f = 3; int g = f; }\ndef d : C { let f = 4; }\ndefvar v = d.f;\n",
    "include \"nonexistent.td\"\ninclude \"nonexistent.td\"\nclass A : B;\n",
    "class int;\ndef class;\ndefvar def = 1;\nclass A<int> { int; let; defvar; assert; dump; }\n",
    "defm;\ndef;\nclass;\nmulticlass;\nforeach;\nif;\nlet;\ndefset;\ndefvar;\nassert;\ndump;\ninclude;\n",
    "multiclass M { }\nmulticlass N { def; defm; foreach i = [1] in def; let a = 1 in def; if 1 then def; assert 1, \"\"; dump 1; }\n",
    "dump \"x\";\ndump !repr(1);\ndef d { dump d; }\nassert d, d;\n",
    "class A<int x>;\ndef d : A<!range(1)>, A<!getdagarg<int>((d 1), 0)>, A<!exists<A>(\"d\")>, A<!listremove([1],[1])>, A<!tolower(\"A\")>, A<!initialized(d)>, A<!logtwo(4)>, A<!div(1, 0)>;\n",
    "#ifndef G\n#define G\nclass A;\n#ifdef G\ndef a : A;\n#else\ndef b : Undefined;\n#endif\n#endif\ndef c : A;\n",
    "#ifdef \"FOO\nclass A;\n#define !foo\n#ifndef @\ndef a;\n#endif\n#define [{ never closed\n",
    "#define\n#ifdef\n#ifndef /* c */ $1\n#else\n#endif\n#endif\n#ifdef 99999999999999999999999\nclass A;\n#define ..\n",
    "class A;\n#ifdef X\nclass B : A;\n#else\nclass C : A {\n#endif\n}\ndef d : C;\n#ifndef X\n",
    "#ifdef UNDEF\n#ifdef INNER\nclass X;\n#else\nclass Y;\n#endif\nclass Z;\n#ifndef OTHER\ndef q : X;\n#endif\n#endif\nclass W;\n#ifdef UNDEF2\n#ifndef I2\n",
    // names pasted from literals only, and identifiers that spell the pasted result
    "class C;\ndef A#\"_x\" : C;\ndef B { C c = A_x; C d = A; }\nforeach i = [1] in def P#\"_q\"#i : C;\ndefvar v = P_q1;\nmulticlass MM { def _m : C; }\ndefm M#\"_y\" : MM;\ndefvar w = M_y_m;\ndef A_x2 : C;\ndefvar u = [A_x, A_x2, M_y];\n",
    // cyclic class hierarchies met by every kind of type-compatibility question (initialiser, let, list element, template argument)
    "class B;\nclass A : A;\ndef a : A;\nclass C { B b = a; list<B> l = [a]; }\ndef c : C { let b = a; }\nclass D<B p>;\ndef e : D<a>;\ndefvar w = !cast<B>(a);\n",
    "class U;\nclass A : B;\nclass B : C;\nclass C : A;\ndef x : B;\nclass H { U u = x; A a = x; C c = x; }\ndef y : H { let u = x; }\nclass D<U q = x>;\nforeach i = [x] in def z # i : D<x>;\n",
    "class P<int n> : P<n>;\nclass Q : P<1>, Q;\ndef q : Q;\nclass R { P<2> f = q; string s = q; list<Q> l = [q, q]; R r = q; }\ndef r : R { let f = q; let r = r; }\n",
    "def d { int a = !cast(1); int b = !isa(d); int c = !exists(\"d\"); int e = !getdagop((d)); dag f = !setdagop<int>((d), d); }\n",
];

pub fn case_of(w: &Workspace, state: &str) -> Value {
    let mut v = w.to_json();
    v["state"] = json!(state);
    v
}

/// All states derived from one base workspace: the base, prefixes and single-token edits of the root and of
/// one included file.
fn derived_states(base: &Workspace, rng: &mut Rng, n_prefix: usize, n_edit: usize) -> Vec<(Workspace, &'static str)> {
    let mut out = vec![(base.clone(), "base")];
    let targets: Vec<usize> = if base.files.len() > 1 { vec![base.root, 1 + rng.below(base.files.len() - 1)] } else { vec![base.root] };
    for &fi in &targets {
        let text = base.files[fi].1.clone();
        let pieces = texts::split_pieces(&text);
        if pieces.is_empty() {
            continue;
        }
        // prefixes at token boundaries (the states a user types through), evenly spread plus the last few
        let np = n_prefix.min(pieces.len());
        for k in 0..np {
            let i = if k < np / 2 { k * pieces.len() / np.max(1) } else { pieces.len() - 1 - (np - 1 - k) };
            let mut w = base.clone();
            w.files[fi].1 = text[..pieces[i].1].to_string();
            out.push((w, "prefix"));
        }
        // a few prefixes cut inside a token
        for _ in 0..3 {
            let mut e = rng.below(text.len() + 1);
            while !text.is_char_boundary(e) {
                e -= 1;
            }
            let mut w = base.clone();
            w.files[fi].1 = text[..e].to_string();
            out.push((w, "prefix-char"));
        }
        // the whole file behind a character that tools like to treat specially at the start of a file (byte order
        // mark, NUL, zero-width space): if one layer drops it and another counts it, every range in the file shifts
        for lead in ["\u{feff}", "\u{feff}\n", "\0", "\u{200b}", "\u{feff}\u{feff}"] {
            let mut w = base.clone();
            w.files[fi].1 = format!("{}{}", lead, text);
            out.push((w, "lead-in-char"));
        }
        // directed edits around preprocessor directives: the token after a directive replaced by lexemes the
        // lexer rejects or that are not names
        for (i, p) in pieces.iter().enumerate() {
            if text[p.0..p.1].starts_with('#') && p.1 - p.0 > 1 {
                if let Some(next) = pieces[i + 1..].iter().find(|q| q.2 != texts::PieceKind::Space) {
                    for bad in ["\"unterminated", "@", "..", "!nosuchop", "$1", "99999999999999999999999", "[{ open", ""] {
                        let mut w = base.clone();
                        w.files[fi].1 = format!("{}{}{}", &text[..next.0], bad, &text[next.1..]);
                        out.push((w, "edit-directive-operand"));
                    }
                }
            }
        }
        for _ in 0..n_edit {
            let (m, tag) = texts::mutate(&text, rng);
            if m.len() > 20_000 {
                continue;
            }
            let mut w = base.clone();
            w.files[fi].1 = m;
            let tag: &'static str = match tag {
                "delete" | "delete2" => "edit-delete",
                "insert" | "insert-glued" => "edit-insert",
                "duplicate" => "edit-duplicate",
                "transpose" => "edit-transpose",
                "replace" => "edit-replace",
                "non-ascii" => "edit-non-ascii",
                "eol-convert" => "edit-eol",
                "byte-noise" => "edit-noise",
                _ => "edit-other",
            };
            out.push((w, tag));
        }
    }
    out
}

fn with_non_ascii(w: &Workspace, rng: &mut Rng) -> Workspace {
    // non-ASCII text adjacent to identifiers: comments and strings before / after tokens
    let mut w = w.clone();
    for (_, t) in w.files.iter_mut() {
        let pieces = texts::split_pieces(t);
        let mut out = String::new();
        let mut last = 0;
        for (s, e, k) in pieces {
            out.push_str(&t[last..s]);
            if k == texts::PieceKind::Word && rng.chance(1, 12) {
                out.push_str("/*\u{e9}\u{1d11e}*/");
            }
            out.push_str(&t[s..e]);
            if k == texts::PieceKind::Str && e - s >= 2 && rng.chance(1, 4) {
                out.pop();
                out.push_str("\u{20ac}\u{3042}\"");
            }
            last = e;
        }
        out.push_str(&t[last..]);
        *t = out;
        if rng.chance(1, 3) {
            *t = t.replace('\n', "\r\n");
        }
    }
    w
}

impl SwCheck {
    pub fn check_state(&self, w: &Workspace, state: &'static str, ctx: &mut Ctx) {
        let case = case_of(w, state);
        ctx.current_json(&case);
        ctx.feature(&format!("state:{}", state));
        // lexing / parsing / include collection under the hook step budget: non-progress is decided logically
        let total: u64 = w.files.iter().map(|f| f.1.len() as u64).sum();
        syntax::verif::arm(400 * (total + 64));
        let loaded = guard(|| ws::load(w));
        syntax::verif::disarm();
        let l = match loaded {
            Ok(l) => l,
            Err(pi) => {
                ctx.eval();
                if self.mode == SMode::Totality {
                    if pi.is_budget() {
                        ctx.violation("set_root:non-progress", "parsing / collecting the workspace exhausted its step budget (a loop stopped consuming input)".to_string(), case);
                    } else {
                        ctx.panic_violation("set_root:", &pi, case);
                    }
                }
                return;
            }
        };
        let opt = SweepOptions { salt: ctx.seed, ..Default::default() };
        let (res, panics) = sweep::sweep(&l, w, &opt);
        ctx.evals(sweep::query_count(&res));
        let nontrivial = state != "base" || w.files.iter().any(|f| !f.1.is_ascii());
        if nontrivial {
            ctx.nontrivial(w.digest());
        }
        match self.mode {
            SMode::Totality => {
                for p in panics {
                    let q: String = p.query.chars().take_while(|c| *c != '@' && *c != '(').collect();
                    ctx.panic_violation(&format!("{}:", q), &p.info, case.clone());
                }
            }
            SMode::Coherence => coherence(w, &l, &res, ctx, &case),
            SMode::Ranges => ranges(w, &l, &res, ctx, &case),
        }
        if ctx.want_sample() && state != "base" {
            ctx.sample(json!({"state": state, "root_text": w.files[w.root].1.chars().take(300).collect::<String>(), "files": w.files.len(), "queries": sweep::query_count(&res)}));
        }
    }

    fn base_workspace(&self, unit: u64, k: u64, ctx: &mut Ctx) -> (Workspace, Rng) {
        let mut rng = Rng::derive(ctx.seed, 0x3000 + self.mode as u64, unit * 10_000 + k);
        let mut cfg = gprog::Cfg::default_for(&mut rng);
        cfg.statements = rng.range(3, 8);
        cfg.dead_use = rng.chance(1, 4);
        cfg.paste_head_var = true;
        cfg.paste_names = true;
        let p = gprog::generate(&mut rng, cfg);
        let mut w = p.workspace();
        if rng.chance(1, 3) {
            w = with_non_ascii(&w, &mut rng);
            ctx.feature("base:non-ascii-adjacent");
        }
        (w, rng)
    }
}

// ------------------------------------------------------------------------------------------------ C06
fn id_token_at(parses: &mut BTreeMap<String, syntax::SyntaxNode>, w: &Workspace, l: &ws::Loaded, path: &str, s: usize, e: Option<usize>) -> Option<(usize, usize, String)> {
    let _ = w;
    if !parses.contains_key(path) {
        let text = l.fs.files.get(std::path::Path::new(path))?;
        parses.insert(path.to_string(), syntax::parse(text).syntax_node());
    }
    let root = parses.get(path)?;
    if s > usize::from(root.text_range().end()) {
        return None;
    }
    // the identifier whose range contains s (start inclusive, end exclusive), or exactly s..e if e is given
    let tok = match root.token_at_offset((s as u32).into()) {
        rowan::TokenAtOffset::None => return None,
        rowan::TokenAtOffset::Single(t) => t,
        rowan::TokenAtOffset::Between(_, right) => right,
    };
    if tok.kind() != SyntaxKind::Id {
        return None;
    }
    let r = tok.text_range();
    let (ts, te) = (usize::from(r.start()), usize::from(r.end()));
    if let Some(e) = e {
        if ts != s || te != e {
            return None;
        }
    }
    Some((ts, te, tok.text().to_string()))
}

fn coherence(w: &Workspace, l: &ws::Loaded, res: &SweepResult, ctx: &mut Ctx, case: &Value) {
    let mut parses: BTreeMap<String, syntax::SyntaxNode> = BTreeMap::new();
    for ((path, off), o) in &res.offsets {
        let Some(target) = &o.goto else { continue };
        ctx.feature("goto_answers");
        let cursor = id_token_at(&mut parses, w, l, path, *off, None);
        let Some((cs, ce, ctext)) = cursor else {
            ctx.violation("answer-without-identifier-under-cursor", format!("go-to-definition answers {:?} at {}:{} where no identifier token is", target, path, off), case.clone());
            continue;
        };
        match id_token_at(&mut parses, w, l, &target.0, target.1, Some(target.2)) {
            Some((_, _, t)) if t == ctext => {}
            other => {
                ctx.violation(
                    if other.is_none() { "target-not-an-identifier-token" } else { "target-text-differs" },
                    format!("cursor '{}' at {}:{}: definition target {:?} is {:?}", ctext, path, off, target, other),
                    case.clone(),
                );
                continue;
            }
        }
        let refs = o.refs.clone().unwrap_or_default();
        for r in &refs {
            match id_token_at(&mut parses, w, l, &r.0, r.1, Some(r.2)) {
                Some((_, _, t)) if t == ctext => {}
                other => {
                    ctx.violation(
                        if other.is_none() { "reference-not-an-identifier-token" } else { "reference-text-differs" },
                        format!("cursor '{}' at {}:{}: reference {:?} is {:?}", ctext, path, off, r, other),
                        case.clone(),
                    );
                    continue;
                }
            }
            // go-to-definition from the reference gives the same target (if that offset was swept)
            if let Some(ro) = res.offsets.get(&(r.0.clone(), r.1)) {
                ctx.feature("reference_roundtrips");
                if ro.goto.as_ref() != Some(target) {
                    ctx.violation(
                        "reference-resolves-elsewhere",
                        format!("cursor '{}' at {}:{} -> {:?}; its reference {:?} resolves to {:?}", ctext, path, off, target, r, ro.goto),
                        case.clone(),
                    );
                }
            }
        }
        let me = (path.clone(), cs, ce);
        if &me != target && !refs.contains(&me) {
            ctx.violation("cursor-neither-target-nor-reference", format!("identifier '{}' at {}:{}..{} resolves to {:?} but is not among its references {:?}", ctext, path, cs, ce, target, refs), case.clone());
        }
    }
}

// ------------------------------------------------------------------------------------------------ C17
fn ranges(w: &Workspace, l: &ws::Loaded, res: &SweepResult, ctx: &mut Ctx, case: &Value) {
    let _ = w;
    let text_of = |p: &str| -> Option<&String> { l.fs.files.get(std::path::Path::new(p)) };
    let in_ws = |p: &str| res.diagnostics.contains_key(p);
    let mut bad: Vec<(String, String)> = Vec::new();
    let mut check = |what: &str, p: &str, s: usize, e: usize, need_ws: bool, n: &mut u64| {
        *n += 1;
        if !res.unknown_files.is_empty() && p.starts_with("<unknown") {
            bad.push((format!("{}:unknown-file", what), format!("{} names a file the file system does not know", what)));
            return;
        }
        if need_ws && !in_ws(p) {
            bad.push((format!("{}:file-outside-workspace", what), format!("{} names {} which is not in the workspace {:?}", what, p, res.diagnostics.keys().collect::<Vec<_>>())));
            return;
        }
        let Some(t) = text_of(p) else {
            bad.push((format!("{}:file-without-text", what), format!("{} names {} which has no text", what, p)));
            return;
        };
        if s > e {
            bad.push((format!("{}:inverted", what), format!("{} range {}..{} in {}", what, s, e, p)));
        } else if e > t.len() {
            bad.push((format!("{}:beyond-text", what), format!("{} range {}..{} in {} of length {}", what, s, e, p, t.len())));
        } else if !t.is_char_boundary(s) || !t.is_char_boundary(e) {
            bad.push((format!("{}:not-on-char-boundary", what), format!("{} range {}..{} in {} splits a character", what, s, e, p)));
        }
    };
    let mut n = 0u64;
    for (p, ds) in &res.diagnostics {
        for (s, e, _) in ds {
            check("diagnostic", p, *s, *e, true, &mut n);
        }
    }
    fn walk(nodes: &[sweep::SymNode], f: &mut dyn FnMut(&sweep::SymNode)) {
        for x in nodes {
            f(x);
            walk(&x.children, f);
        }
    }
    for (p, fr) in &res.files {
        if let Some(s) = &fr.symbols {
            let mut all = Vec::new();
            walk(s, &mut |x| all.push(x.range));
            for r in all {
                check("symbol", p, r.0, r.1, true, &mut n);
            }
        }
        for r in fr.folds.iter().flatten() {
            check("folding", p, r.0, r.1, true, &mut n);
        }
        for (s, e, target) in fr.links.iter().flatten() {
            check("link", p, *s, *e, true, &mut n);
            check("link-target", target, 0, 0, true, &mut n);
        }
        for (pos, _) in fr.hints_full.iter().flatten() {
            check("hint", p, *pos, *pos, true, &mut n);
        }
        for (_, hs) in &fr.hints_sub {
            for (pos, _) in hs.iter().flatten() {
                check("hint", p, *pos, *pos, true, &mut n);
            }
        }
    }
    for (_, o) in &res.offsets {
        if let Some(g) = &o.goto {
            check("definition", &g.0, g.1, g.2, true, &mut n);
        }
        for r in o.refs.iter().flatten() {
            check("reference", &r.0, r.1, r.2, true, &mut n);
        }
    }
    ctx.feature_n("ranges_checked", n);
    for (sig, what) in bad {
        ctx.violation(sig, what, case.clone());
    }
}

impl Check for SwCheck {
    fn id(&self) -> &'static str {
        match self.mode {
            SMode::Totality => "C03",
            SMode::Coherence => "C06",
            SMode::Ranges => "C17",
        }
    }
    fn units(&self, tier: Tier, _seed: u64) -> u64 {
        // generated bases | stress patterns | corpus files
        tier.pick(48, 640) + STRESS.len() as u64 + 39 + if self.mode_is_ranges() { tier.pick(32, 320) } else { 0 }
    }
    fn run_unit(&self, unit: u64, ctx: &mut Ctx) {
        let gen_units = ctx.tier.pick(48, 640);
        if unit < gen_units {
            for k in 0..ctx.tier.pick(6, 16) {
                let (base, mut rng) = self.base_workspace(unit, k, ctx);
                ctx.feature("base_workspaces");
                if base.files.len() > 1 {
                    ctx.feature("base_with_includes");
                }
                for (w, state) in derived_states(&base, &mut rng, ctx.tier.pick(14, 40), ctx.tier.pick(14, 40)) {
                    self.check_state(&w, state, ctx);
                }
            }
        } else if unit < gen_units + STRESS.len() as u64 {
            let s = STRESS[(unit - gen_units) as usize];
            let mut rng = Rng::derive(ctx.seed, 0x3333, unit);
            // the pattern alone, as an included file of a root that uses it, and all its prefixes / edits
            let single = Workspace::single(s);
            let two = Workspace { files: vec![("/ws/main.td".into(), format!("include \"inc.td\"\n{}", s)), ("/ws/inc.td".into(), s.to_string())], root: 0 };
            ctx.feature("stress_patterns");
            if self.mode == SMode::Totality && unit == gen_units {
                self.nesting_growth(ctx);
            }
            if unit == gen_units + 1 {
                // include statements in every place a statement can stand (defset, let, foreach, if, multiclass
                // bodies), naming files that are longer than the including one
                let pad = "// padding so that offsets in this file exceed the length of the including file\n".repeat(6);
                let inc_a = format!("{}def first : C;\ndef second : C {{ int g = 1; }}\n", pad);
                let inc_b = format!("{}class InB<int q> {{ int h = q; }}\ndef viaB : InB<3>;\nmulticlass MB<int m> {{ def _x : InB<m>; }}\n", pad);
                let main = "class C { int f = 1; }\ndefset list<C> All = {\n  include \"inc_a.td\"\n}\nlet f = 2 in {\n  include \"inc_a.td\"\n}\nforeach i = [1, 2] in {\n  include \"inc_b.td\"\n}\nif true then {\n  include \"inc_b.td\"\n}\nmulticlass M {\n  include \"inc_a.td\"\n}\ndefm z : M;\ndef last : C;\n";
                let w = Workspace { files: vec![("/ws/main.td".into(), main.to_string()), ("/ws/inc_a.td".into(), inc_a), ("/ws/inc_b.td".into(), inc_b)], root: 0 };
                ctx.feature("nested_include_workspaces");
                for (w2, state) in derived_states(&w, &mut rng, 40, ctx.tier.pick(30, 200)) {
                    self.check_state(&w2, if state == "base" { "stress" } else { state }, ctx);
                }
            }
            for base in [single, two] {
                let pieces = texts::split_pieces(s);
                for (w, state) in derived_states(&base, &mut rng, pieces.len(), ctx.tier.pick(30, 200)) {
                    self.check_state(&w, if state == "base" { "stress" } else { state }, ctx);
                }
            }
        } else if unit >= gen_units + STRESS.len() as u64 + 39 {
            // C17 only: validity of what the server puts on the wire (positions in the coordinates of the file named)
            crate::lspdrv::install_counting_hook();
            for k in 0..ctx.tier.pick(3, 8) {
                if ctx.features.get("watchdog").copied().unwrap_or(0) > 0 {
                    break;
                }
                crate::lspchecks::wire_validity_case(unit, k, ctx);
            }
        } else {
            let k = (unit - gen_units - STRESS.len() as u64) as usize;
            let f = &texts::corpus()[k];
            if f.text.len() > 120_000 && ctx.tier == Tier::Quick {
                // large files: a 60 KB window (cut at a line) keeps the quick tier quick
                let cut = f.text[..60_000].rfind('\n').unwrap_or(60_000);
                self.check_state(&Workspace::single(&f.text[..cut]), "corpus", ctx);
            } else {
                self.check_state(&Workspace::single(&f.text), "corpus", ctx);
            }
            ctx.feature("corpus_files");
        }
    }
    fn replay(&self, case: &Value, ctx: &mut Ctx) {
        if let Some(w) = Workspace::from_json(case) {
            self.check_state(&w, "replayed", ctx);
        }
    }
    fn rule(&self) -> String {
        let states = format!("workspace states: generated multi-file programs (G-prog, a third of them with non-ASCII comments/strings glued to identifiers and CRLF), and for each its token-boundary prefixes, character-cut prefixes and single-token edits (delete, insert, duplicate, transpose, replace, byte noise, non-ASCII, EOL conversion) of the root and of one included file; {} hand-written semantic stress patterns (self/mutual parents, name-prefix parents, self-typed fields, redefinitions of classes/defs/fields/template arguments, shadowing chains, defsets in defsets, defm of undefined/self multiclasses, keyword-only statements, every bang operator with wrong arguments) alone and as an included file, with every token prefix and random edits; the 39 corpus files. On every state the full query sweep runs: diagnostics, and per file document symbols, folding ranges, document links, inlay hints for the full range, empty ranges and sub-ranges, and per offset (every char boundary of files <= 600 bytes, token boundaries + middles otherwise) go-to-definition, references, hover, completion with and without the '!' trigger", STRESS.len());
        match self.mode {
            SMode::Totality => format!("{}. Oracle: no query panics (each is individually guarded and attributed), no stack overflow on the 2 MiB stack the server uses, no unit exceeds its CPU budget; NESTING GROWTH: for 16 nestable constructs (list, dag, operator arguments, !if/!cond arms, operator bodies, paste, class reference, nested statements; nested in first and in last position) the thread CPU time of load + diagnostics at depths 10, 14, 18 - two consecutive 4-level ratios >= 8 (polynomial work: about 3) or one >= 64 mean the work multiplies per level, i.e. the analysis does not return for the depths real files reach. non-trivial = a derived (broken) state or non-ASCII text; distinct by digest of all texts + root", states),
            SMode::Coherence => format!("{}. Oracle at every swept offset where go-to-definition answers: an identifier token lies under the cursor; the target is an identifier token of the named file with the same text; every reference is such a token; go-to-definition from each reference gives the same target; the cursor identifier is the target or one of the references. Identifier tokens are looked up in a fresh syntax::parse of the named file. non-trivial as above", states),
            SMode::Ranges => format!("{}. Oracle: every range in every result (diagnostics, symbols and children, folding, links and their targets, hint positions, definitions, references) names a file in the key set of diagnostics(), lies within that file's current text, on UTF-8 character boundaries, start <= end. ON THE WIRE: additional units drive the real server in process on generated multi-file workspaces whose files have deliberately different line structures (1-30 leading blank lines in some, malformed tails in some, non-ASCII, CRLF/mixed); every URI in every answer (definition, references with declaration, documentSymbol, foldingRange, documentLink incl. targets, inlayHint, publishDiagnostics) must name a workspace file and every position must exist in the current text of the file it is attached to: the line exists, the UTF-16 column is at most the line's width and does not split a surrogate pair, start <= end. non-trivial as above", states),
        }
    }
    fn floors(&self, tier: Tier) -> Vec<(&'static str, u64)> {
        let n = tier.pick(250, 9000);
        let mut v = vec![("base_workspaces", n), ("base_with_includes", n / 4), ("state:prefix", n * 10), ("state:edit-delete", n), ("state:edit-replace", n), ("state:lead-in-char", n * 5), ("stress_patterns", STRESS.len() as u64), ("nested_include_workspaces", 1), ("corpus_files", 39), ("base:non-ascii-adjacent", n / 6)];
        match self.mode {
            SMode::Coherence => v.extend([("goto_answers", n * 100), ("reference_roundtrips", n * 20)]),
            SMode::Totality => v.push(("nesting_growth_shapes", 16)),
            SMode::Ranges => v.extend([("ranges_checked", n * 1000), ("wire:workspaces", tier.pick(90, 2400)), ("wire:ranges_checked", tier.pick(3000, 100_000)), ("wire:references_answers", tier.pick(1000, 30_000)), ("wire:answers_naming_another_file", tier.pick(300, 10_000))]),
            _ => {}
        }
        v
    }
    fn assumptions(&self) -> Vec<String> {
        vec!["workspaces with include cycles belong to C16; offsets beyond the text and files outside the workspace are not requested".into()]
    }
    fn unit_cpu_budget_s(&self) -> f64 {
        600.0
    }
    fn sanitizer_steps(&self, seed: u64, agg: &mut Agg) {
        if self.mode != SMode::Coherence {
            // salsa + parking_lot + rowan + the indexer under the Miri interpreter (tiny two-file workspaces)
            crate::sanit::miri("ide", seed, 16, 2, agg);
        }
        // this check's monitor under ASan + libFuzzer: coverage-guided root texts of a two-file workspace, full sweep
        let mode = self.mode;
        let name = match mode {
            SMode::Totality => "totality",
            SMode::Coherence => "coherence",
            SMode::Ranges => "ranges",
        };
        crate::sanit::fuzz_with_env("ide_sweep", 75, &[("VFUZZ_MODE", name)], agg, &move |bytes| {
            let text = String::from_utf8_lossy(bytes).to_string();
            if text.len() > 4096 {
                return vec![];
            }
            let w = Workspace { files: vec![("/ws/main.td".into(), format!("include \"inc.td\"\n{}", text)), ("/ws/inc.td".into(), FUZZ_INC.to_string())], root: 0 };
            let mut ctx = Ctx::new(Tier::Thorough, 0, None);
            SwCheck { mode }.check_state(&w, "fuzz", &mut ctx);
            ctx.violations.values().map(|v| (v.signature.clone(), v.what.clone())).collect()
        });
    }
    fn technique(&self) -> &'static str {
        match self.mode {
            SMode::Totality => "panic / stack-overflow / CPU-budget monitor over the full query sweep on typed-through workspace states; CPU-time growth monitor under nesting",
            SMode::Coherence => "invariant monitor relating go-to-definition and find-references answers to the identifier tokens of a fresh parse",
            SMode::Ranges => "invariant monitor on every range of every query result against the current file texts and the workspace key set, at the ide level and on the JSON-RPC wire",
        }
    }
}
