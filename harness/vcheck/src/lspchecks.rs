//! C09 (location fidelity), C11 (published diagnostics converge), C12 (editor buffers are the source of truth):
//! histories driven through the real server over JSON-RPC, checked against reference models.
use crate::core::*;
use crate::gprog;
use crate::lspdrv::{self, Session, WATCHDOG};
use crate::refpos::RefPos;
use crate::ws::{self, Workspace};
use serde_json::{json, Value};
use std::collections::{BTreeMap, BTreeSet};

#[derive(Clone, Copy, PartialEq, Eq)]
pub enum LMode {
    Locations,
    Converge,
    Buffers,
}
pub struct LspCheck {
    pub mode: LMode,
}

fn pos_json(rp: &RefPos, off: usize) -> Value {
    let (l, c) = rp.to_line_col(off);
    json!({"line": l, "character": c})
}
fn range_json(text: &str, s: usize, e: usize) -> Value {
    let rp = RefPos::new(text);
    json!({"start": pos_json(&rp, s), "end": pos_json(&rp, e)})
}
fn norm_range(v: &Value) -> (u64, u64, u64, u64) {
    (v["start"]["line"].as_u64().unwrap_or(u64::MAX), v["start"]["character"].as_u64().unwrap_or(u64::MAX), v["end"]["line"].as_u64().unwrap_or(u64::MAX), v["end"]["character"].as_u64().unwrap_or(u64::MAX))
}

/// diagnostics of a workspace state as the reference sees them: fresh ide analysis, ranges through refpos
fn expected_diagnostics(w: &Workspace) -> BTreeMap<String, Vec<((u64, u64, u64, u64), String)>> {
    let l = ws::load(w);
    let mut out = BTreeMap::new();
    for (fid, ds) in l.analysis().diagnostics() {
        let Some(path) = l.fs.path_of(fid) else { continue };
        let text = w.text_of(&path).unwrap_or("").to_string();
        let mut v: Vec<((u64, u64, u64, u64), String)> =
            ds.into_iter().map(|d| (norm_range(&range_json(&text, usize::from(d.location.range.start()), usize::from(d.location.range.end()))), d.message)).collect();
        v.sort();
        out.insert(path, v);
    }
    out
}
fn published_norm(v: &Value) -> Vec<((u64, u64, u64, u64), String)> {
    let mut out: Vec<_> = v.as_array().map(|a| a.iter().map(|d| (norm_range(&d["range"]), d["message"].as_str().unwrap_or("").to_string())).collect()).unwrap_or_default();
    out.sort();
    out
}

// ------------------------------------------------------------------------------------------------ C09
fn locations_case(unit: u64, k: u64, ctx: &mut Ctx) {
    let mut rng = Rng::derive(ctx.seed, 0x9000, unit * 1000 + k);
    let mut cfg = gprog::Cfg::default_for(&mut rng);
    cfg.max_includes = rng.range(1, 2);
    cfg.statements = rng.range(3, 7);
    cfg.non_ascii = rng.chance(1, 2);
    cfg.crlf = rng.chance(1, 4);
    cfg.mixed_eol = !cfg.crlf && rng.chance(1, 3);
    cfg.dead_use = rng.chance(1, 2);
    let mut p = gprog::generate(&mut rng, cfg);
    // half of the programs carry a seeded fault so that diagnostics exist, also in included files
    if rng.chance(1, 2) && !p.fault_sites.is_empty() {
        let site = p.fault_sites[rng.below(p.fault_sites.len())].clone();
        if !site.class.starts_with("syntax") && site.class != "undefined-include" {
            // keep the metadata valid: only same-length-agnostic checks below use offsets of OTHER files
            let q = p.apply_fault(&site);
            // offsets after the site in that file are shifted: drop uses/decls of that file that lie behind it
            let shift_file = site.file;
            let cut = site.span.0;
            p.uses.retain(|u| !(u.file == shift_file && u.range.0 >= cut) && !(p.decls[u.decl].file == shift_file && p.decls[u.decl].range.0 >= cut));
            p.files = q.files;
            ctx.feature("with_seeded_fault");
        }
    }
    // spans that end exactly at the end of a document: no final newline, and an unfinished last statement whose
    // syntax error sits at end of file (only appended text: recorded offsets stay valid)
    for fi in 0..p.files.len() {
        match rng.below(4) {
            0 => {
                let t = p.files[fi].1.trim_end().to_string();
                p.files[fi].1 = t;
                ctx.feature("file_without_final_newline");
            }
            1 => {
                let t = format!("{}class Unfinished{}", p.files[fi].1.trim_end_matches(' '), fi);
                p.files[fi].1 = t;
                ctx.feature("file_with_error_at_eof");
            }
            2 => {
                // an error whose range runs over several lines (an unterminated code fragment up to the end of the file)
                let t = format!("{}\ndef Tail{} {{ code c = [{{ never\n  closed \u{e9}\n", p.files[fi].1.trim_end_matches(' '), fi);
                p.files[fi].1 = t;
                ctx.feature("file_with_multi_line_diagnostic");
            }
            _ => {}
        }
    }
    let w = p.workspace();
    let case = w.to_json();
    ctx.current_json(&case);
    ctx.nontrivial(w.digest());
    ctx.feature("workspaces");
    if w.files.iter().any(|f| !f.1.is_ascii()) {
        ctx.feature("non_ascii");
    }
    if w.files.iter().any(|f| f.1.contains("\r\n")) {
        ctx.feature("crlf");
    }
    if w.files.iter().any(|f| f.1.contains("\r\n\n") || f.1.contains("\n\r\n")) && w.files.iter().any(|f| f.1.replace("\r\n", "").contains('\n')) {
        ctx.feature("mixed_line_terminators");
    }
    // reference: direct ide analysis
    let l = ws::load(&w);
    let a = l.analysis();
    let id_of = |fi: usize| l.fs.id_of(&w.files[fi].0);
    let text_of = |path: &str| w.text_of(path).unwrap_or("").to_string();
    // server
    let mut s = Session::start("C09");
    for (path, text) in &w.files {
        s.write_disk(path, text);
    }
    s.did_open(&w.files[w.root].0, &w.files[w.root].1);
    if !s.quiesce(WATCHDOG) {
        ctx.note("watchdog fired while waiting for quiescence (inconclusive sample)");
        ctx.feature("watchdog");
        s.abandon();
        return;
    }
    let mut viol: Vec<(String, String)> = Vec::new();
    let loc_json = |s: &Session, path: &str, a: usize, b: usize| -> Value { json!({"uri": s.uri(path), "range": range_json(&text_of(path), a, b)}) };
    // definitions and references at every recorded use / declaration
    let mut probes: Vec<(usize, usize)> = p.uses.iter().filter(|u| !u.optional).map(|u| (u.file, (u.range.0 + u.range.1) / 2)).collect();
    probes.extend(p.decls.iter().map(|d| (d.file, d.range.0)));
    probes.truncate(ctx.tier.pick(60, 200));
    for (fi, off) in probes {
        let Some(fid) = id_of(fi) else { continue };
        let path = &w.files[fi].0;
        let text = &w.files[fi].1;
        if off > text.len() || !text.is_char_boundary(off) {
            continue;
        }
        let rp = RefPos::new(text);
        let tdp = json!({"textDocument": {"uri": s.uri(path)}, "position": pos_json(&rp, off)});
        let pos = ide::file_system::FilePosition::new(fid, (off as u32).into());
        // definition
        ctx.eval();
        let want = a.goto_definition(pos).and_then(|r| l.fs.path_of(r.file).map(|tp| loc_json(&s, &tp, usize::from(r.range.start()), usize::from(r.range.end()))));
        let cross = a.goto_definition(pos).map(|r| r.file != fid).unwrap_or(false);
        match s.call("textDocument/definition", tdp.clone(), WATCHDOG) {
            None => {
                ctx.feature("watchdog");
                break;
            }
            Some((res, err)) => {
                let got = res.filter(|v| !v.is_null());
                if err.is_some() || got != want {
                    viol.push((
                        format!("definition:{}", if cross { "target-in-other-file" } else { "same-file" }),
                        format!("definition at {}:{}: server {:?} (error {:?}), analysis says {:?}", path, off, got, err, want),
                    ));
                }
                ctx.feature(if cross { "definition_cross_file" } else { "definition_same_file" });
            }
        }
        // references
        ctx.eval();
        let want: Option<BTreeSet<String>> =
            a.references(pos).map(|v| v.into_iter().filter_map(|r| l.fs.path_of(r.file).map(|tp| loc_json(&s, &tp, usize::from(r.range.start()), usize::from(r.range.end())).to_string())).collect());
        let mut params = tdp.clone();
        params["context"] = json!({"includeDeclaration": false});
        match s.call("textDocument/references", params, WATCHDOG) {
            None => {
                ctx.feature("watchdog");
                break;
            }
            Some((res, err)) => {
                let got: Option<BTreeSet<String>> = res.filter(|v| !v.is_null()).and_then(|v| v.as_array().map(|a| a.iter().map(|x| x.to_string()).collect()));
                if err.is_some() || got != want {
                    let cross = want.as_ref().map(|w| w.iter().any(|x| !x.contains(&s.uri(path)))).unwrap_or(false);
                    viol.push((
                        format!("references:{}", if cross { "some-in-other-file" } else { "same-file" }),
                        format!("references at {}:{}: server {:?} (error {:?}), analysis says {:?}", path, off, got, err, want),
                    ));
                }
                ctx.feature("references_requests");
            }
        }
    }
    // per-file requests for every file of the workspace
    for (fi, (path, text)) in w.files.iter().enumerate() {
        let Some(fid) = id_of(fi) else { continue };
        let td = json!({"textDocument": {"uri": s.uri(path)}});
        let rp = RefPos::new(text);
        // document symbols
        ctx.eval();
        fn sym_json(text: &str, x: &ide::handlers::document_symbol::DocumentSymbol) -> Value {
            let r = range_json(text, usize::from(x.range.start()), usize::from(x.range.end()));
            json!({"name": x.name.to_string(), "range": r, "selectionRange": r, "children": x.children.iter().map(|c| sym_json(text, c)).collect::<Vec<_>>()})
        }
        fn strip(v: &Value) -> Value {
            json!({"name": v["name"], "range": v["range"], "selectionRange": v["selectionRange"], "children": v["children"].as_array().map(|a| a.iter().map(strip).collect::<Vec<_>>()).unwrap_or_default()})
        }
        let want: Option<Vec<Value>> = a.document_symbol(fid).map(|v| v.iter().map(|x| sym_json(text, x)).collect());
        if let Some((res, err)) = s.call("textDocument/documentSymbol", td.clone(), WATCHDOG) {
            let got: Option<Vec<Value>> = res.filter(|v| !v.is_null()).and_then(|v| v.as_array().map(|a| a.iter().map(strip).collect()));
            if err.is_some() || got != want {
                viol.push((format!("documentSymbol:{}", if fi == w.root { "root" } else { "included-file" }), format!("{}: server {:?} (error {:?}), analysis {:?}", path, got, err, want)));
            }
            ctx.feature("documentSymbol_requests");
        }
        // folding ranges (lines)
        ctx.eval();
        let want: Option<Vec<(u64, u64)>> = a.folding_range(fid).map(|v| v.iter().map(|f| (rp.line_of(usize::from(f.range.start())) as u64, rp.line_of(usize::from(f.range.end())) as u64)).collect());
        if let Some((res, err)) = s.call("textDocument/foldingRange", td.clone(), WATCHDOG) {
            let got: Option<Vec<(u64, u64)>> =
                res.filter(|v| !v.is_null()).and_then(|v| v.as_array().map(|a| a.iter().map(|f| (f["startLine"].as_u64().unwrap_or(u64::MAX), f["endLine"].as_u64().unwrap_or(u64::MAX))).collect()));
            if err.is_some() || got != want {
                viol.push((format!("foldingRange:{}", if fi == w.root { "root" } else { "included-file" }), format!("{}: server {:?} (error {:?}), analysis {:?}", path, got, err, want)));
            }
            ctx.feature("foldingRange_requests");
        }
        // document links
        ctx.eval();
        let want: Option<Vec<(String, String)>> = a.document_link(fid).map(|v| {
            v.iter().map(|k| (range_json(text, usize::from(k.range.start()), usize::from(k.range.end())).to_string(), l.fs.path_of(k.target).map(|t| s.uri(&t)).unwrap_or_default())).collect()
        });
        if let Some((res, err)) = s.call("textDocument/documentLink", td.clone(), WATCHDOG) {
            let got: Option<Vec<(String, String)>> =
                res.filter(|v| !v.is_null()).and_then(|v| v.as_array().map(|a| a.iter().map(|k| (k["range"].to_string(), k["target"].as_str().unwrap_or("").to_string())).collect()));
            if err.is_some() || got != want {
                viol.push(("documentLink".into(), format!("{}: server {:?} (error {:?}), analysis {:?}", path, got, err, want)));
            }
            if want.as_ref().map(|w| !w.is_empty()).unwrap_or(false) {
                ctx.feature("documentLink_nonempty");
            }
        }
        // inlay hints for the whole file
        ctx.eval();
        let full = ide::file_system::FileRange::new(fid, text_size::TextRange::new(0.into(), (text.len() as u32).into()));
        let want: Option<BTreeSet<(String, String)>> = a.inlay_hint(full).map(|v| v.iter().map(|h| (pos_json(&rp, usize::from(h.position)).to_string(), h.label.clone())).collect());
        let mut params = td.clone();
        params["range"] = range_json(text, 0, text.len());
        if let Some((res, err)) = s.call("textDocument/inlayHint", params, WATCHDOG) {
            let got: Option<BTreeSet<(String, String)>> =
                res.filter(|v| !v.is_null()).and_then(|v| v.as_array().map(|a| a.iter().map(|h| (h["position"].to_string(), h["label"].as_str().unwrap_or("").to_string())).collect()));
            if err.is_some() || got != want {
                viol.push((format!("inlayHint:{}", if fi == w.root { "root" } else { "included-file" }), format!("{}: server {:?} (error {:?}), analysis {:?}", path, got, err, want)));
            }
            if want.as_ref().map(|w| !w.is_empty()).unwrap_or(false) {
                ctx.feature("inlayHint_nonempty");
            }
        }
    }
    // published diagnostics per URI
    ctx.eval();
    let want = expected_diagnostics(&w);
    let (last, _) = s.published();
    for (path, ds) in &want {
        let got = last.get(path).map(published_norm);
        if got.as_ref() != Some(ds) {
            viol.push((format!("publishDiagnostics:{}", if path == &w.files[w.root].0 { "root" } else { "included-file" }), format!("{}: published {:?}, analysis {:?}", path, got, ds)));
        }
        if !ds.is_empty() {
            ctx.feature("diagnostics_nonempty");
            if path != &w.files[w.root].0 {
                ctx.feature("diagnostics_in_included_file");
            }
        }
    }
    for (sig, what) in viol {
        ctx.violation(sig, what.chars().take(900).collect::<String>(), case.clone());
    }
    if ctx.want_sample() {
        ctx.sample(json!({"files": w.files.iter().map(|f| json!({"path": f.0, "bytes": f.1.len(), "lines": f.1.lines().count()})).collect::<Vec<_>>(), "requests": s.sent.len()}));
    }
    for p in take_foreign_panics() {
        ctx.violation(format!("server-thread-{}", p.signature()), format!("a server thread panicked: {} at {}", p.message, p.location), case.clone());
    }
    s.shutdown();
}

// ------------------------------------------------------------------------------------------------ C17 on the wire
/// Validity of everything the server sends (no comparison with the analysis: that is C09): every URI names a
/// file of the workspace, every position exists in the current text of the file it belongs to (the line exists,
/// the UTF-16 column is at most the line's width and does not split a surrogate pair), start <= end.
pub fn wire_validity_case(unit: u64, k: u64, ctx: &mut Ctx) {
    let mut rng = Rng::derive(ctx.seed, 0x1700, unit * 1000 + k);
    let mut cfg = gprog::Cfg::default_for(&mut rng);
    cfg.max_includes = rng.range(1, 2);
    cfg.statements = rng.range(3, 8);
    cfg.non_ascii = rng.chance(1, 2);
    cfg.crlf = rng.chance(1, 4);
    cfg.mixed_eol = !cfg.crlf && rng.chance(1, 3);
    cfg.dead_use = rng.chance(1, 2);
    let mut p = gprog::generate(&mut rng, cfg);
    // line structures that differ as much as possible between the files: pad some files with leading blank
    // lines (appended text would not move anything), others stay dense
    let mut shifts: Vec<usize> = vec![0; p.files.len()];
    for fi in 0..p.files.len() {
        if rng.chance(1, 2) {
            let pad = "\n".repeat(rng.range(1, 30));
            shifts[fi] = pad.len();
            p.files[fi].1 = format!("{}{}", pad, p.files[fi].1);
        }
        if rng.chance(1, 4) {
            // malformed tail (only appended text)
            let t = format!("{}class Unfinished{} : [{{ \"open", p.files[fi].1.trim_end(), fi);
            p.files[fi].1 = t;
            ctx.feature("wire:malformed_tail");
        }
    }
    let w = p.workspace();
    let case = w.to_json();
    ctx.current_json(&case);
    ctx.nontrivial(w.digest());
    ctx.feature("wire:workspaces");
    let mut s = Session::start("C17");
    for (path, text) in &w.files {
        s.write_disk(path, text);
    }
    s.did_open(&w.files[w.root].0, &w.files[w.root].1);
    if !s.quiesce(WATCHDOG) {
        ctx.note("watchdog fired while waiting for quiescence (inconclusive sample)");
        ctx.feature("watchdog");
        s.abandon();
        return;
    }
    let mut viol: Vec<(String, String)> = Vec::new();
    // validation of one position / range against a file's text
    fn check_pos(text: &str, pos: &Value) -> Result<usize, String> {
        let rp = RefPos::new(text);
        let (Some(line), Some(ch)) = (pos["line"].as_u64(), pos["character"].as_u64()) else { return Err(format!("not a position: {}", pos)) };
        if line as usize >= rp.line_count() {
            return Err(format!("line {} does not exist ({} lines)", line, rp.line_count()));
        }
        if ch as u32 > rp.width16(line as usize) {
            return Err(format!("character {} is past the end of line {} (width {})", ch, line, rp.width16(line as usize)));
        }
        rp.from_line_col(line as u32, ch as u32).ok_or_else(|| format!("({}, {}) splits a surrogate pair", line, ch))
    }
    fn check_range(text: &str, r: &Value) -> Result<(), String> {
        let a = check_pos(text, &r["start"])?;
        let b = check_pos(text, &r["end"])?;
        if a > b {
            return Err(format!("start after end: {}", r));
        }
        Ok(())
    }
    // walk a response: ranges with their own uri, ranges of the request's document, positions, line pairs
    fn walk(v: &Value, own_path: &str, s: &Session, w: &Workspace, kind: &str, seen: &mut u64, viol: &mut Vec<(String, String)>) {
        match v {
            Value::Array(a) => a.iter().for_each(|x| walk(x, own_path, s, w, kind, seen, viol)),
            Value::Object(o) => {
                let mut path = own_path.to_string();
                for key in ["uri", "targetUri"] {
                    if let Some(u) = o.get(key).and_then(|u| u.as_str()) {
                        match s.rel_of(u).filter(|r| w.text_of(r).is_some()) {
                            Some(r) => path = r,
                            None => {
                                viol.push((format!("wire:{}:uri-outside-workspace", kind), format!("{} names {}, which is no file of the workspace", kind, u)));
                                return;
                            }
                        }
                    }
                }
                if let Some(t) = o.get("target").and_then(|u| u.as_str()) {
                    if s.rel_of(t).filter(|r| w.text_of(r).is_some()).is_none() {
                        viol.push((format!("wire:{}:uri-outside-workspace", kind), format!("link target {} is no file of the workspace", t)));
                    }
                }
                let text = w.text_of(&path).unwrap_or("");
                let other = path != own_path;
                for key in ["range", "selectionRange", "targetRange", "targetSelectionRange"] {
                    if let Some(r) = o.get(key) {
                        *seen += 1;
                        if let Err(e) = check_range(text, r) {
                            viol.push((format!("wire:{}:{}", kind, if other { "range-invalid-in-other-file" } else { "range-invalid" }), format!("{} {} in {}: {}", kind, key, path, e)));
                        }
                    }
                }
                if let Some(pz) = o.get("position") {
                    *seen += 1;
                    if let Err(e) = check_pos(text, pz) {
                        viol.push((format!("wire:{}:position-invalid", kind), format!("{} position in {}: {}", kind, path, e)));
                    }
                }
                if let (Some(a), Some(b)) = (o.get("startLine").and_then(|x| x.as_u64()), o.get("endLine").and_then(|x| x.as_u64())) {
                    *seen += 1;
                    let n = RefPos::new(text).line_count() as u64;
                    if a > b || b >= n {
                        viol.push((format!("wire:{}:lines-invalid", kind), format!("{} lines {}..{} in {} ({} lines)", kind, a, b, path, n)));
                    }
                }
                for key in ["children", "location"] {
                    if let Some(c) = o.get(key) {
                        walk(c, &path, s, w, kind, seen, viol);
                    }
                }
            }
            _ => {}
        }
    }
    let mut seen = 0u64;
    let mut probes: Vec<(usize, usize)> = p.uses.iter().map(|u| (u.file, shifts[u.file] + (u.range.0 + u.range.1) / 2)).collect();
    probes.extend(p.decls.iter().map(|d| (d.file, shifts[d.file] + d.range.0)));
    probes.truncate(ctx.tier.pick(60, 200));
    'probes: for (fi, off) in probes {
        let path = &w.files[fi].0;
        let text = &w.files[fi].1;
        if off > text.len() || !text.is_char_boundary(off) {
            continue;
        }
        let rp = RefPos::new(text);
        let tdp = json!({"textDocument": {"uri": s.uri(path)}, "position": pos_json(&rp, off)});
        for (method, kind) in [("textDocument/definition", "definition"), ("textDocument/references", "references")] {
            ctx.eval();
            let mut params = tdp.clone();
            if kind == "references" {
                params["context"] = json!({"includeDeclaration": true});
            }
            match s.call(method, params, WATCHDOG) {
                None => {
                    ctx.feature("watchdog");
                    break 'probes;
                }
                Some((res, _)) => {
                    if let Some(v) = res {
                        let before = seen;
                        walk(&v, path, &s, &w, kind, &mut seen, &mut viol);
                        if seen > before {
                            ctx.feature(&format!("wire:{}_answers", kind));
                            if v.to_string().matches("\"uri\"").count() > 1 || !v.to_string().contains(&s.uri(path)) {
                                ctx.feature("wire:answers_naming_another_file");
                            }
                        }
                    }
                }
            }
        }
    }
    for (path, text) in &w.files {
        let td = json!({"textDocument": {"uri": s.uri(path)}});
        for (method, kind) in [("textDocument/documentSymbol", "documentSymbol"), ("textDocument/foldingRange", "foldingRange"), ("textDocument/documentLink", "documentLink"), ("textDocument/inlayHint", "inlayHint")] {
            ctx.eval();
            let mut params = td.clone();
            if kind == "inlayHint" {
                params["range"] = range_json(text, 0, text.len());
            }
            if let Some((Some(v), _)) = s.call(method, params, WATCHDOG) {
                walk(&v, path, &s, &w, kind, &mut seen, &mut viol);
            }
        }
    }
    let (last, _) = s.published();
    for (path, v) in &last {
        ctx.eval();
        match w.text_of(path) {
            None => {
                if v.as_array().map(|a| !a.is_empty()).unwrap_or(false) {
                    viol.push(("wire:publishDiagnostics:uri-outside-workspace".into(), format!("diagnostics published for {}, which is no file of the workspace", path)));
                }
            }
            Some(_) => walk(v, path, &s, &w, "publishDiagnostics", &mut seen, &mut viol),
        }
    }
    ctx.feature_n("wire:ranges_checked", seen);
    for (sig, what) in viol {
        ctx.violation(sig, what.chars().take(900).collect::<String>(), case.clone());
    }
    for p in take_foreign_panics() {
        ctx.violation(format!("server-thread-{}", p.signature()), format!("a server thread panicked: {} at {}", p.message, p.location), case.clone());
    }
    s.shutdown();
}

// ------------------------------------------------------------------------------------------------ C11 / C12
/// One document text: `include`s the next document or not, carries a uniquely named undefined class (a marker
/// that shows up in a diagnostic) or not, and a uniquely named class (a marker that shows up in the outline).
fn doc_text(doc: usize, docs: &[&str], origin: &str, version: usize, include_next: bool, faulty: bool) -> String {
    let mut t = String::new();
    // different line structure per document and version
    for _ in 0..(doc + version % 3) {
        t.push_str("// pad\n");
    }
    if include_next {
        // the last document includes the first one again: an include cycle through open documents
        let next = (doc + 1) % docs.len();
        t.push_str(&format!("include \"{}\"\n", docs[next].rsplit('/').next().unwrap()));
    }
    t.push_str(&format!("class K_{}_{}_{} {{ int f = 1; }}\n", doc, origin, version));
    if faulty {
        t.push_str(&format!("class F_{}_{}_{} : U_{}_{}_{};\n", doc, origin, version, doc, origin, version));
    }
    t
}

#[derive(Clone, Debug)]
struct Action {
    doc: usize,
    include_next: bool,
    faulty: bool,
    /// send exactly the text the editor sent last for this document (a re-opened tab, a no-op change)
    resend: bool,
    /// send the previous text with one blank in front of the faulty parent turned into a line break (or back):
    /// every byte offset stays, every line/column behind it moves
    reflow: bool,
    /// the tab is closed and opened again: didClose + didOpen, and the editor restarts the version numbering
    reopen: bool,
    /// the editor sends exactly the text the file has on disk (an undo back to the saved state)
    revert: bool,
    /// no message at all: the document, which is not open, is replaced on disk by another text of the same length
    /// and keeps its modification time
    disk_swap: bool,
    /// replay: the recorded text, verbatim
    fixed_text: Option<String>,
}

fn reflowed(prev: &str) -> String {
    if prev.contains("\n: U_") {
        prev.replacen("\n: U_", " : U_", 1)
    } else {
        prev.replacen(" : U_", "\n: U_", 1)
    }
}

/// `unsaved`: documents that exist only in the editor (never written to disk)
fn run_session(mode: LMode, docs: &[&str], actions: &[Action], check_every_step: bool, ctx: &mut Ctx, exhaustive: bool, unsaved: &[usize]) {
    // disk: for C11 disk always equals what the editor sends (so the result does not depend on C12);
    // for C12 disk holds different (faulty, include-carrying) texts than the editor ever sends
    let mut s = Session::start(if mode == LMode::Converge { "C11" } else { "C12" });
    let n = docs.len();
    let mut disk: Vec<String> = (0..n).map(|d| doc_text(d, docs, "disk", 0, d + 1 < n, true)).collect();
    if !unsaved.is_empty() {
        ctx.feature("sessions_with_unsaved_document");
    }
    for d in 0..n {
        if unsaved.contains(&d) {
            continue;
        }
        s.write_disk(docs[d], &disk[d]);
    }
    let mut buffers: Vec<Option<String>> = vec![None; n];
    let mut versions = vec![0usize; n];
    // the protocol's version numbers, restarted when a document is opened again
    let mut lsp_version = vec![0i64; n];
    let mut root: Option<usize> = None;
    let mut history = Vec::new();
    let mut viol: Vec<(String, String)> = Vec::new();
    let mut ever_published: BTreeSet<String> = BTreeSet::new();
    let case_json = |history: &Vec<Value>| json!({"kind": "lsp_session", "docs": docs, "history": history, "check_every_step": check_every_step, "unsaved": unsaved});
    let mut watchdog = false;
    for (step, act) in actions.iter().enumerate() {
        if act.disk_swap {
            if buffers[act.doc].is_none() && !unsaved.contains(&act.doc) {
                let swapped = if disk[act.doc].contains("_disk_") { disk[act.doc].replace("_disk_", "_dskB_") } else { disk[act.doc].replace("_dskB_", "_disk_") };
                if swapped.len() == disk[act.doc].len() && swapped != disk[act.doc] {
                    disk[act.doc] = swapped.clone();
                    s.write_disk_keep_mtime(docs[act.doc], &swapped);
                    history.push(json!({"action": "disk-rewrite-same-length-same-mtime", "doc": docs[act.doc], "text": swapped}));
                    ctx.feature("action:disk-rewrite-same-length-same-mtime");
                }
            }
            continue;
        }
        versions[act.doc] += 1;
        let text = match (&buffers[act.doc], act.resend, act.reflow) {
            _ if act.fixed_text.is_some() => act.fixed_text.clone().unwrap(),
            _ if act.revert && !unsaved.contains(&act.doc) => disk[act.doc].clone(),
            (Some(prev), true, _) => prev.clone(),
            (Some(prev), _, true) => reflowed(prev),
            _ => doc_text(act.doc, docs, "ed", versions[act.doc] * 10 + act.doc, act.include_next, act.faulty),
        };
        if act.resend && buffers[act.doc].is_some() {
            ctx.feature("action:resend-same-text");
        }
        if act.revert && !unsaved.contains(&act.doc) && buffers[act.doc].as_ref().map(|b| *b != disk[act.doc]).unwrap_or(false) {
            ctx.feature("action:revert-to-disk-text");
        }
        if act.reflow && buffers[act.doc].as_ref().map(|p| *p != text).unwrap_or(false) {
            ctx.feature("action:reflow-same-byte-offsets");
        }
        if mode == LMode::Converge && !unsaved.contains(&act.doc) {
            disk[act.doc] = text.clone();
            s.write_disk(docs[act.doc], &text);
        }
        let was_open = buffers[act.doc].is_some();
        let reopen = was_open && act.reopen;
        let opened = was_open && !reopen;
        history.push(json!({"action": if opened { "didChange" } else if reopen { "didClose+didOpen" } else { "didOpen" }, "doc": docs[act.doc], "text": text}));
        ctx.current_json(&case_json(&history));
        if opened {
            lsp_version[act.doc] += 1;
            s.did_change(docs[act.doc], lsp_version[act.doc], &text);
        } else {
            if reopen {
                ctx.feature("action:reopen-restarts-versions");
                let uri = s.uri(docs[act.doc]);
                s.notify("textDocument/didClose", json!({"textDocument": {"uri": uri}}));
            }
            lsp_version[act.doc] = 1;
            s.did_open(docs[act.doc], &text);
        }
        buffers[act.doc] = Some(text);
        root = Some(act.doc);
        let last_step = step + 1 == actions.len();
        if !(check_every_step || last_step) {
            continue;
        }
        if !s.quiesce(WATCHDOG) {
            watchdog = true;
            break;
        }
        ctx.eval();
        ctx.feature("quiescent_points");
        // reference session: texts = disk overlaid by open buffers; root = last touched document
        // (a document that is neither open nor on disk does not exist)
        let texts: Vec<(String, String)> = (0..n).filter(|d| buffers[*d].is_some() || !unsaved.contains(d)).map(|d| (docs[d].to_string(), buffers[d].clone().unwrap_or(disk[d].clone()))).collect();
        let root_idx = texts.iter().position(|t| t.0 == docs[root.unwrap()]).unwrap_or(0);
        let w = Workspace { files: texts, root: root_idx };
        let want = expected_diagnostics(&w);
        let (last, vers) = s.published();
        ever_published.extend(last.keys().cloned());
        for (path, vs) in &vers {
            if vs.windows(2).any(|p| p[1] < p[0]) {
                viol.push(("version-decreased".into(), format!("{}: published versions {:?}", path, vs)));
            }
        }
        match mode {
            LMode::Converge => {
                for (path, ds) in &want {
                    let got = last.get(path).map(published_norm);
                    if got.as_ref() != Some(ds) {
                        let stale = got.as_ref().map(|g| g.iter().any(|(_, m)| !ds.iter().any(|(_, m2)| m == m2))).unwrap_or(false);
                        viol.push((
                            format!("{}:{}", if got.is_none() { "workspace-file-never-published" } else if stale { "stale-diagnostics-kept" } else { "diagnostics-differ" }, if Some(path.as_str()) == root.map(|r| docs[r]) { "root" } else { "included" }),
                            format!("step {}: {}: last published {:?}, final state has {:?}", step, path, got, ds),
                        ));
                    }
                }
                for path in &ever_published {
                    if !want.contains_key(path) {
                        ctx.feature("file_left_workspace");
                        let got = last.get(path).map(published_norm).unwrap_or_default();
                        if !got.is_empty() {
                            viol.push(("left-workspace-keeps-diagnostics".into(), format!("step {}: {} is no longer part of the workspace but its last published diagnostics are {:?}", step, path, got)));
                        }
                    }
                }
            }
            LMode::Buffers => {
                // markers: every diagnostic / outline entry names the (document, origin, version) of the text it
                // was computed from; exactly the reference's markers must be visible
                let mut want_markers: BTreeSet<String> = BTreeSet::new();
                for ds in want.values() {
                    for (_, m) in ds {
                        if let Some(i) = m.find("U_") {
                            want_markers.insert(m[i..].split(|c: char| !(c.is_ascii_alphanumeric() || c == '_')).next().unwrap_or("").to_string());
                        }
                    }
                }
                let mut got_markers: BTreeSet<String> = BTreeSet::new();
                for (path, v) in &last {
                    if !want.contains_key(path) {
                        continue; // stale entries of files that left the workspace are C11's business
                    }
                    for (_, m) in published_norm(v) {
                        if let Some(i) = m.find("U_") {
                            got_markers.insert(m[i..].split(|c: char| !(c.is_ascii_alphanumeric() || c == '_')).next().unwrap_or("").to_string());
                        }
                    }
                }
                if got_markers != want_markers {
                    let from_disk: Vec<_> = got_markers.iter().filter(|m| m.contains("_disk_") && !want_markers.contains(*m)).collect();
                    let opened_docs: Vec<_> = (0..n).filter(|d| buffers[*d].is_some()).collect();
                    let about_other = from_disk.iter().any(|m| root.map(|r| !m.starts_with(&format!("U_{}_", r))).unwrap_or(false));
                    viol.push((
                        if !from_disk.is_empty() { format!("disk-text-used-for-open-document:{}", if about_other { "included-open-document" } else { "root" }) } else { "diagnostic-markers-differ".to_string() },
                        format!("step {}: diagnostics name {:?}, reference session (open: {:?}, root {}) expects {:?}", step, got_markers, opened_docs, docs[root.unwrap()], want_markers),
                    ));
                }
                // outline of every workspace document through documentSymbol
                for path in want.keys() {
                    let uri = s.uri(path);
                    let Some((res, _)) = s.call("textDocument/documentSymbol", json!({"textDocument": {"uri": uri}}), WATCHDOG) else {
                        watchdog = true;
                        break;
                    };
                    let names: BTreeSet<String> = res.and_then(|v| v.as_array().map(|a| a.iter().filter_map(|x| x["name"].as_str().map(|s| s.to_string())).collect())).unwrap_or_default();
                    let text = w.text_of(path).unwrap_or("");
                    let want_names: BTreeSet<String> = text.lines().filter_map(|l| l.strip_prefix("class ")).map(|r| r.split(|c: char| !(c.is_ascii_alphanumeric() || c == '_')).next().unwrap_or("").to_string()).collect();
                    ctx.feature("outline_probes");
                    if names != want_names {
                        let d = docs.iter().position(|x| x == path).unwrap_or(0);
                        viol.push((
                            format!("outline-from-wrong-text:{}", if buffers[d].is_some() { "open-document" } else { "never-opened-document" }),
                            format!("step {}: {} outline {:?}, its current text declares {:?}", step, path, names, want_names),
                        ));
                    }
                }
            }
            LMode::Locations => {}
        }
        if !viol.is_empty() {
            break;
        }
    }
    let mut h = fnv64(format!("{:?}{}", actions, check_every_step).as_bytes());
    h ^= docs.len() as u64;
    ctx.nontrivial(h);
    ctx.feature(if exhaustive { "exhaustive_sessions" } else { "random_sessions" });
    ctx.feature(if check_every_step { "sessions_checked_every_step" } else { "sessions_burst" });
    for a in actions {
        if a.include_next {
            ctx.feature("action:with-include");
        } else {
            ctx.feature("action:without-include");
        }
        if a.faulty {
            ctx.feature("action:faulty");
        }
    }
    if watchdog {
        ctx.feature("watchdog");
        ctx.note(format!("watchdog fired (no verdict) after history {:?}", history.iter().map(|h| h["action"].as_str().unwrap_or("")).collect::<Vec<_>>()));
    }
    for p in take_foreign_panics() {
        viol.push((format!("server-thread-{}", p.signature()), format!("a server thread panicked: {} at {}", p.message, p.location)));
    }
    if ctx.want_sample() && actions.len() >= 3 {
        ctx.sample(json!({"docs": docs, "history": history.iter().map(|h| json!({"action": h["action"], "doc": h["doc"]})).collect::<Vec<_>>()}));
    }
    let cj = case_json(&history);
    for (sig, what) in viol {
        ctx.violation(sig, what.chars().take(900).collect::<String>(), cj.clone());
    }
    if watchdog {
        s.abandon();
    } else {
        s.shutdown();
    }
}

fn action_pool(n_docs: usize) -> Vec<Action> {
    let mut v = Vec::new();
    for doc in 0..n_docs {
        for include_next in [false, true] {
            for faulty in [false, true] {
                v.push(Action { doc, include_next, faulty, resend: false, reflow: false, reopen: false, revert: false, disk_swap: false, fixed_text: None });
            }
        }
        v.push(Action { doc, include_next: false, faulty: true, resend: true, reflow: false, reopen: false, revert: false, disk_swap: false, fixed_text: None });
    }
    v
}
/// the pool of the random sessions: the exhaustive pool plus byte-offset-preserving reflows and re-opened tabs
fn action_pool_wide(n_docs: usize) -> Vec<Action> {
    let mut v = action_pool(n_docs);
    for doc in 0..n_docs {
        v.push(Action { doc, include_next: false, faulty: true, resend: false, reflow: true, reopen: false, revert: false, disk_swap: false, fixed_text: None });
        v.push(Action { doc, include_next: doc + 1 < n_docs, faulty: true, resend: false, reflow: false, reopen: true, revert: false, disk_swap: false, fixed_text: None });
        v.push(Action { doc, include_next: doc + 1 < n_docs, faulty: true, resend: false, reflow: false, reopen: false, revert: true, disk_swap: false, fixed_text: None });
    }
    v
}

const DOCS2: [&str; 2] = ["/ws/a.td", "/ws/b.td"];
const DOCS3: [&str; 3] = ["/ws/a.td", "/ws/b.td", "/ws/c.td"];
/// names that a file: URI has to percent-encode (blank, '#', non-ASCII, '%', brackets)
const DOCS3_ODD: [&str; 3] = ["/ws/my root.td", "/ws/inc #1 é.td", "/ws/100%[x].td"];

impl Check for LspCheck {
    fn id(&self) -> &'static str {
        match self.mode {
            LMode::Locations => "C09",
            LMode::Converge => "C11",
            LMode::Buffers => "C12",
        }
    }
    fn units(&self, tier: Tier, _seed: u64) -> u64 {
        match self.mode {
            LMode::Locations => tier.pick(96, 640),
            _ => tier.pick(96, 640),
        }
    }
    fn run_unit(&self, unit: u64, ctx: &mut Ctx) {
        lspdrv::install_counting_hook();
        match self.mode {
            LMode::Locations => {
                for k in 0..ctx.tier.pick(4, 16) {
                    if ctx.features.get("watchdog").copied().unwrap_or(0) > 0 {
                        break; // a stalled server: no point in waiting out every further session
                    }
                    locations_case(unit, k, ctx);
                }
            }
            mode => {
                // exhaustive part: all histories of length <= L over the 2-document pool, sliced over the units
                let pool = action_pool(2);
                let maxlen = ctx.tier.pick(3, 4);
                let units = self.units(ctx.tier, 0);
                let mut idx = 0u64;
                let mut cur: Vec<usize> = Vec::new();
                fn rec(cur: &mut Vec<usize>, pool: &[Action], maxlen: usize, idx: &mut u64, unit: u64, units: u64, f: &mut dyn FnMut(&[usize])) {
                    if !cur.is_empty() {
                        if *idx % units == unit {
                            f(cur);
                        }
                        *idx += 1;
                    }
                    if cur.len() == maxlen {
                        return;
                    }
                    for a in 0..pool.len() {
                        cur.push(a);
                        rec(cur, pool, maxlen, idx, unit, units, f);
                        cur.pop();
                    }
                }
                let mut todo: Vec<Vec<usize>> = Vec::new();
                rec(&mut cur, &pool, maxlen, &mut idx, unit, units, &mut |c| todo.push(c.to_vec()));
                for h in todo {
                    if ctx.features.get("watchdog").copied().unwrap_or(0) > 0 {
                        break;
                    }
                    let acts: Vec<Action> = h.iter().map(|i| pool[*i].clone()).collect();
                    run_session(mode, &DOCS2, &acts, true, ctx, true, &[]);
                    if acts.len() >= 2 {
                        run_session(mode, &DOCS2, &acts, false, ctx, true, &[]);
                    }
                }
                // directed histories (one per unit, so that they do not depend on chance): a document is opened,
                // changed j times (protocol versions 2..j+1), its tab closed and opened again (version 1), changed
                // again (version 2 < j+1), and another document is touched in between or afterwards
                {
                    let d = (unit % 3) as usize;
                    let j = 1 + ((unit / 3) % 3) as usize;
                    let new = |doc: usize, inc: bool, faulty: bool| Action { doc, include_next: inc, faulty, resend: false, reflow: false, reopen: false, revert: false, disk_swap: false, fixed_text: None };
                    let mut acts = vec![new(d, d < 2, true)];
                    for i in 0..j {
                        acts.push(new(d, d < 2, i % 2 == 0));
                    }
                    if (unit / 9) % 2 == 0 {
                        acts.push(new((d + 1) % 3, false, true));
                    }
                    acts.push(Action { reopen: true, ..new(d, d < 2, true) });
                    acts.push(new(d, false, true));
                    acts.push(new((d + 2) % 3, (d + 2) % 3 < 2, false));
                    acts.push(new(d, d < 2, false));
                    ctx.feature("directed_reopen_sessions");
                    let docs: &[&str] = if unit % 2 == 0 { &DOCS3 } else { &DOCS3_ODD };
                    run_session(mode, docs, &acts, true, ctx, false, &[]);
                    // reflow: the faulty text, then the same bytes with the diagnostic moved to another line, twice
                    let reflow = Action { reflow: true, ..new(d, false, true) };
                    let acts = vec![new(d, d < 2, true), reflow.clone(), new((d + 1) % 3, false, j % 2 == 0), reflow.clone(), reflow];
                    ctx.feature("directed_reflow_sessions");
                    run_session(mode, docs, &acts, true, ctx, false, &[]);
                    // revert: an included document is opened, edited, brought back to exactly its on-disk text, then
                    // the including document is edited
                    let inc = 1 + (unit % 2) as usize;
                    let revert = Action { revert: true, ..new(inc, inc < 2, true) };
                    let acts = vec![new(inc - 1, true, false), new(inc, inc < 2, true), new(inc, false, j % 2 == 0), revert, new(inc - 1, true, true), new(inc - 1, true, false)];
                    ctx.feature("directed_revert_sessions");
                    run_session(mode, docs, &acts, true, ctx, false, &[]);
                    // a new, unsaved file: included before it exists anywhere, then opened, then its includer edited
                    let acts = vec![new(inc - 1, true, j % 2 == 0), new(inc, false, true), new(inc - 1, true, false), new(inc, inc < 2, false), new(inc - 1, true, true)];
                    ctx.feature("directed_unsaved_sessions");
                    run_session(mode, docs, &acts, true, ctx, false, &[inc]);
                    // retarget: the root stays the root and one edit swaps its include for another one, so a faulty
                    // file leaves the workspace while another file enters it (same number of files before and after)
                    let base = |i: usize| docs[i].rsplit('/').next().unwrap().to_string();
                    let swap = Action { fixed_text: Some(format!("// retargeted\ninclude \"{}\"\nclass K_0_ed_r{} {{ int f = 1; }}\n", base(2), unit)), ..new(0, false, false) };
                    let back = Action { fixed_text: Some(format!("include \"{}\"\nclass K_0_ed_s{} {{ int f = 1; }}\n", base(1), unit)), ..new(0, false, false) };
                    let acts = vec![new(1, false, true), new(2, false, j % 2 == 0), new(0, true, false), swap.clone(), back, swap];
                    ctx.feature("directed_retarget_sessions");
                    run_session(mode, docs, &acts, true, ctx, false, &[]);
                    // emptied: select all + delete in an included document (the editor sends the text ""), then the
                    // including document is touched, then text comes back
                    let empty = Action { fixed_text: Some(String::new()), ..new(inc, false, false) };
                    let acts = vec![new(inc - 1, true, false), new(inc, false, true), empty.clone(), new(inc - 1, true, j % 2 == 0), new(inc, false, true), empty, new(inc - 1, true, false)];
                    ctx.feature("directed_emptied_document_sessions");
                    run_session(mode, docs, &acts, true, ctx, false, &[]);
                    // a file that is not open is replaced on disk by a text of the same length with its old modification
                    // time, then its includer is touched
                    let swap_disk = Action { disk_swap: true, ..new(inc, false, false) };
                    let acts = vec![new(inc - 1, true, false), swap_disk.clone(), new(inc - 1, true, j % 2 == 0), swap_disk, new(inc - 1, true, false)];
                    ctx.feature("directed_disk_rewrite_sessions");
                    run_session(mode, docs, &acts, true, ctx, false, &[]);
                }
                // random longer histories over three documents (chain a -> b -> c)
                let pool3 = action_pool_wide(3);
                let mut rng = Rng::derive(ctx.seed, 0x1100 + mode as u64, unit);
                for _ in 0..ctx.tier.pick(4, 20) {
                    if ctx.features.get("watchdog").copied().unwrap_or(0) > 0 {
                        break;
                    }
                    let len = rng.range(4, 8);
                    let acts: Vec<Action> = (0..len).map(|_| pool3[rng.below(pool3.len())].clone()).collect();
                    let odd = rng.chance(1, 2);
                    if odd {
                        ctx.feature("sessions_with_percent_encoded_names");
                    }
                    // a third of the sessions has one document that exists only in the editor (a new, unsaved file)
                    let unsaved: Vec<usize> = if rng.chance(1, 3) { vec![rng.below(3)] } else { vec![] };
                    run_session(mode, if odd { &DOCS3_ODD } else { &DOCS3 }, &acts, rng.chance(1, 2), ctx, false, &unsaved);
                }
            }
        }
    }
    fn replay(&self, case: &Value, ctx: &mut Ctx) {
        lspdrv::install_counting_hook();
        if case["kind"] == "lsp_session" {
            let docs: Vec<String> = case["docs"].as_array().map(|a| a.iter().filter_map(|x| x.as_str().map(|s| s.to_string())).collect()).unwrap_or_default();
            let docs_ref: Vec<&str> = docs.iter().map(|s| s.as_str()).collect();
            let acts: Vec<Action> = case["history"]
                .as_array()
                .map(|a| {
                    a.iter()
                        .filter_map(|h| {
                            let d = docs.iter().position(|x| Some(x.as_str()) == h["doc"].as_str())?;
                            let t = h["text"].as_str()?;
                            Some(Action { doc: d, include_next: t.contains("include "), faulty: t.contains(": U_"), resend: false, reflow: false, reopen: h["action"].as_str() == Some("didClose+didOpen"), revert: false, disk_swap: false, fixed_text: Some(t.to_string()) })
                        })
                        .collect()
                })
                .unwrap_or_default();
            let unsaved: Vec<usize> = case["unsaved"].as_array().map(|a| a.iter().filter_map(|x| x.as_u64().map(|u| u as usize)).collect()).unwrap_or_default();
            run_session(self.mode, &docs_ref, &acts, case["check_every_step"].as_bool().unwrap_or(true), ctx, false, &unsaved);
        } else {
            ctx.note("replay of a C09 case re-runs the whole unit is not supported; re-run the check with the recorded seed");
        }
    }
    fn rule(&self) -> String {
        match self.mode {
            LMode::Locations => "generated multi-file workspaces (G-prog: root + 1-2 included files with different line structure, half with non-ASCII text, a quarter CRLF, a quarter with LF and CRLF mixed line by line (including empty lines, so CRLF is directly followed by LF), half with a dead use, half with one seeded semantic fault) written to a per-session directory; the real server is driven over JSON-RPC in process (didOpen of the root, logical quiescence through hook counters + barrier requests). For up to 60 (thorough 200) identifier positions (uses and declarations, in every file): textDocument/definition and textDocument/references; for every file: documentSymbol (range and selectionRange of every node), foldingRange (lines), documentLink (range + target URI), inlayHint (positions); publishDiagnostics per URI. Each answer must equal the ide-level result for the same texts with every (file, byte range) converted by refpos USING THE TEXT OF THE FILE THE RANGE BELONGS TO. non-trivial = every workspace; distinct by digest".into(),
            LMode::Converge => "sessions over documents a.td (-> b.td (-> c.td)); every text version carries uniquely named classes and, if faulty, a uniquely named undefined parent, and includes the next document or not; disk is rewritten with the same text before each message (so C12 cannot interfere). EXHAUSTIVE: all histories of length <= 3 (thorough 4) over the 10-action pool of two documents (8 new texts - the second document may include the first one back, an include cycle - and a resend of the unchanged text per document), each run twice: checked at every quiescent prefix, and sent as a burst and checked at the end. DIRECTED: one history per unit in which a document is opened, changed 1-3 times, closed and opened again (protocol version back to 1) and changed again, with other documents touched in between. RANDOM: histories of 4-8 actions over three documents (half of the sessions with file names a file: URI must percent-encode: blank, '#', '%', brackets, non-ASCII), drawn from the same pool plus a 'reflow' (the previous text with one blank turned into a line break: all byte offsets stay, line/column of the diagnostic moves) a 're-opened tab' (didClose + didOpen, protocol version numbers restart at 1) and a 'revert' (the editor sends exactly the on-disk text); a third of the sessions has one document that exists only in the editor (never on disk: includes of it resolve only while it is open). At each quiescent point (all snapshot tasks ended by hook counters, then barrier requests): for every file of the final workspace the last published diagnostics equal those of a fresh analysis of the reference session state (refpos-converted); every URI ever published that is not in the final workspace has an empty last publication; versions per URI never decrease (checked on the arrival order of the notification stream). non-trivial = every session; distinct by action sequence".into(),
            LMode::Buffers => "same session space as C11, but the disk holds texts the editor never sends (faulty, including the next document, marked _disk_) while the editor sends texts marked _ed_: reference session = disk overlaid by open buffers, root = last touched document. At each quiescent point the undefined-class markers named by the last published diagnostics of workspace files must be exactly those of the reference session, and documentSymbol of every workspace document must list exactly the classes its current reference text declares (an open document reached only through an include must show its editor text; a never-opened one its disk text). non-trivial = every session".into(),
        }
    }
    fn floors(&self, tier: Tier) -> Vec<(&'static str, u64)> {
        match self.mode {
            LMode::Locations => {
                let n = tier.pick(300, 8000);
                vec![("workspaces", n), ("definition_cross_file", n), ("definition_same_file", n), ("references_requests", n * 10), ("non_ascii", n / 4), ("crlf", n / 10), ("mixed_line_terminators", n / 10), ("file_with_multi_line_diagnostic", n / 10), ("diagnostics_in_included_file", n / 20), ("documentLink_nonempty", n / 2), ("inlayHint_nonempty", n / 2)]
            }
            _ => {
                let mut v = vec![("exhaustive_sessions", tier.pick(400, 2500)), ("random_sessions", tier.pick(150, 8000)), ("sessions_burst", 100), ("quiescent_points", tier.pick(1000, 20_000)), ("action:with-include", 500), ("action:resend-same-text", 200), ("action:reflow-same-byte-offsets", tier.pick(25, 500)), ("action:reopen-restarts-versions", tier.pick(25, 500)), ("sessions_with_percent_encoded_names", tier.pick(60, 1500)), ("sessions_with_unsaved_document", tier.pick(60, 1500)), ("directed_reopen_sessions", tier.pick(90, 600))];
                if self.mode == LMode::Buffers {
                    // (in C11 the disk always equals the editor text, so a revert is a resend there)
                    v.push(("action:revert-to-disk-text", tier.pick(10, 300)));
                }
                v
            }
        }
    }
    fn exhaustive(&self, tier: Tier) -> Option<String> {
        match self.mode {
            LMode::Locations => None,
            _ => Some(format!("sub-space: all histories of length <= {} over the 8-action pool of two documents (6 new texts + a resend of the unchanged text per document), in stepwise and burst form", tier.pick(3, 4))),
        }
    }
    fn assumptions(&self) -> Vec<String> {
        vec![
            "quiescence is logical: hook counters (every snapshot task started has ended) plus barrier requests answered by the main loop; a wall-clock watchdog only ever yields 'no verdict for this sample'".into(),
            "refpos.rs converts byte ranges to LSP positions".into(),
        ]
    }
    fn unit_cpu_budget_s(&self) -> f64 {
        900.0
    }
    fn sanitizer_steps(&self, seed: u64, agg: &mut Agg) {
        // a spread of the quick units (exhaustive short histories, bursts, random sessions) again on a
        // ThreadSanitizer build of this binary: the server's main loop, its snapshot tasks and the client side
        // of the driver run as real threads
        crate::sanit::tsan(self.id(), seed, &[0, 1, 2, 17, 40, 63, 95], agg);
    }
    fn technique(&self) -> &'static str {
        match self.mode {
            LMode::Locations => "differential monitor at the JSON-RPC boundary: server answers vs ide-level results converted by an independent position mapper",
            LMode::Converge => "offline checker over the recorded notification stream at logically quiescent points against a reference session model; online version-monotonicity monitor",
            LMode::Buffers => "marker-based reference-session monitor (disk vs editor text provenance) over recorded LSP sessions",
        }
    }
}
