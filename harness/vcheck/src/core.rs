//! Shared plumbing: PRNG, per-worker observation context, supervisor/worker protocol,
//! crash classification, known-finding matching, evidence writing.
use serde_json::{json, Value};
use std::cell::RefCell;
use std::collections::{BTreeMap, HashSet};
use std::io::{BufRead, BufReader, Read, Write};
use std::panic::{self, AssertUnwindSafe};
use std::path::{Path, PathBuf};
use std::process::{Command, Stdio};
use std::sync::Mutex;
use std::time::{Duration, Instant};

pub const VERIF_ROOT: &str = "/verif";
pub const CASE_STACK: usize = 2 << 20; // tokio blocking-thread default: what the shipped server runs analyses on
const CUR_SLOT: usize = 1 << 20;
const DIGEST_CAP: usize = 1_000_000;
const SAMPLE_CAP: usize = 4;

// ------------------------------------------------------------------------------------------------
// PRNG
#[derive(Clone)]
pub struct Rng {
    s: [u64; 4],
}
fn splitmix(x: &mut u64) -> u64 {
    *x = x.wrapping_add(0x9E3779B97F4A7C15);
    let mut z = *x;
    z = (z ^ (z >> 30)).wrapping_mul(0xBF58476D1CE4E5B9);
    z = (z ^ (z >> 27)).wrapping_mul(0x94D049BB133111EB);
    z ^ (z >> 31)
}
impl Rng {
    pub fn new(seed: u64) -> Self {
        let mut x = seed ^ 0xD1B54A32D192ED03;
        Rng { s: [splitmix(&mut x), splitmix(&mut x), splitmix(&mut x), splitmix(&mut x)] }
    }
    pub fn derive(seed: u64, a: u64, b: u64) -> Self {
        let mut x = seed;
        let p = splitmix(&mut x) ^ a.wrapping_mul(0xA24BAED4963EE407);
        let mut y = p;
        let q = splitmix(&mut y) ^ b.wrapping_mul(0x9FB21C651E98DF25);
        Rng::new(q)
    }
    pub fn next(&mut self) -> u64 {
        let r = self.s[1].wrapping_mul(5).rotate_left(7).wrapping_mul(9);
        let t = self.s[1] << 17;
        self.s[2] ^= self.s[0];
        self.s[3] ^= self.s[1];
        self.s[1] ^= self.s[2];
        self.s[0] ^= self.s[3];
        self.s[2] ^= t;
        self.s[3] = self.s[3].rotate_left(45);
        r
    }
    pub fn below(&mut self, n: usize) -> usize {
        if n == 0 {
            return 0;
        }
        (self.next() % n as u64) as usize
    }
    pub fn range(&mut self, lo: usize, hi_incl: usize) -> usize {
        lo + self.below(hi_incl - lo + 1)
    }
    pub fn chance(&mut self, num: u32, den: u32) -> bool {
        (self.next() % den as u64) < num as u64
    }
    pub fn pick<'a, T>(&mut self, xs: &'a [T]) -> &'a T {
        &xs[self.below(xs.len())]
    }
    pub fn shuffle<T>(&mut self, xs: &mut [T]) {
        for i in (1..xs.len()).rev() {
            let j = self.below(i + 1);
            xs.swap(i, j);
        }
    }
}

pub fn fnv64(bytes: &[u8]) -> u64 {
    let mut h: u64 = 0xcbf29ce484222325;
    for b in bytes {
        h ^= *b as u64;
        h = h.wrapping_mul(0x100000001b3);
    }
    // final avalanche so that short inputs spread
    let mut x = h;
    splitmix(&mut x)
}

// ------------------------------------------------------------------------------------------------
#[derive(Clone, Copy, PartialEq, Eq, Debug)]
pub enum Tier {
    Quick,
    Thorough,
}
impl Tier {
    pub fn name(self) -> &'static str {
        match self {
            Tier::Quick => "quick",
            Tier::Thorough => "thorough",
        }
    }
    pub fn pick<T>(self, q: T, t: T) -> T {
        match self {
            Tier::Quick => q,
            Tier::Thorough => t,
        }
    }
}

#[derive(Clone, Debug)]
pub struct Violation {
    pub signature: String,
    pub what: String,
    pub case: Value,
}

// ------------------------------------------------------------------------------------------------
// Panic capture
#[derive(Clone, Debug)]
pub struct PanicInfo {
    pub message: String,
    pub location: String,
    pub thread: String,
}
impl PanicInfo {
    /// true if the panic originated in the harness' own source (=> harness error, not a verdict)
    pub fn in_harness(&self) -> bool {
        self.location.contains("vcheck/src") && !self.message.contains(syntax::verif::BUDGET_EXHAUSTED)
    }
    pub fn is_budget(&self) -> bool {
        self.message.contains(syntax::verif::BUDGET_EXHAUSTED)
    }
    /// stable signature: location without column, message with digits squashed
    pub fn signature(&self) -> String {
        let loc = self.location.rsplitn(2, ':').last().unwrap_or("").to_string();
        let loc = loc.replace("/repo/crates/", "");
        let loc = match loc.find("/registry/src/") {
            Some(i) => {
                let rest = &loc[i + 14..];
                rest.splitn(2, '/').nth(1).unwrap_or(rest).to_string()
            }
            None => loc,
        };
        let mut msg: String = self
            .message
            .chars()
            .map(|c| if c.is_ascii_digit() { '#' } else { c })
            .collect();
        while msg.contains("##") {
            msg = msg.replace("##", "#");
        }
        if msg.len() > 80 {
            let mut e = 80;
            while !msg.is_char_boundary(e) {
                e -= 1;
            }
            msg.truncate(e);
        }
        format!("panic@{}:{}", loc, msg)
    }
}
thread_local! {
    static GUARD_DEPTH: RefCell<u32> = const { RefCell::new(0) };
    static LAST_PANIC: RefCell<Option<PanicInfo>> = const { RefCell::new(None) };
}
static FOREIGN_PANICS: Mutex<Vec<PanicInfo>> = Mutex::new(Vec::new());

pub fn install_panic_hook() {
    let default = panic::take_hook();
    panic::set_hook(Box::new(move |info| {
        let message = if let Some(s) = info.payload().downcast_ref::<&str>() {
            s.to_string()
        } else if let Some(s) = info.payload().downcast_ref::<String>() {
            s.clone()
        } else {
            "<non-string panic>".to_string()
        };
        let location = info
            .location()
            .map(|l| format!("{}:{}:{}", l.file(), l.line(), l.column()))
            .unwrap_or_default();
        let thread = std::thread::current().name().unwrap_or("?").to_string();
        let pi = PanicInfo { message, location, thread };
        let guarded = GUARD_DEPTH.with(|g| *g.borrow() > 0);
        if guarded {
            LAST_PANIC.with(|l| *l.borrow_mut() = Some(pi));
        } else {
            FOREIGN_PANICS.lock().unwrap_or_else(|e| e.into_inner()).push(pi.clone());
            if std::env::var_os("VCHECK_VERBOSE_PANICS").is_some() || pi.in_harness() {
                default(info);
            }
        }
    }));
}
pub fn take_foreign_panics() -> Vec<PanicInfo> {
    std::mem::take(&mut *FOREIGN_PANICS.lock().unwrap_or_else(|e| e.into_inner()))
}

/// Run `f`, turning a panic into a value. Panics raised by the harness itself are re-raised.
pub fn guard<T>(f: impl FnOnce() -> T) -> Result<T, PanicInfo> {
    GUARD_DEPTH.with(|g| *g.borrow_mut() += 1);
    let r = panic::catch_unwind(AssertUnwindSafe(f));
    GUARD_DEPTH.with(|g| *g.borrow_mut() -= 1);
    match r {
        Ok(v) => Ok(v),
        Err(payload) => {
            let pi = LAST_PANIC.with(|l| l.borrow_mut().take()).unwrap_or(PanicInfo {
                message: "<unknown>".into(),
                location: String::new(),
                thread: String::new(),
            });
            if pi.in_harness() {
                eprintln!("harness panic: {} at {}", pi.message, pi.location);
                panic::resume_unwind(payload);
            }
            Err(pi)
        }
    }
}

// ------------------------------------------------------------------------------------------------
// "current input" slot, readable by the supervisor after a hard crash
struct CurSlot {
    ptr: *mut u8,
}
unsafe impl Send for CurSlot {}
impl CurSlot {
    fn open(path: &Path) -> Option<CurSlot> {
        use std::os::unix::io::AsRawFd;
        let f = std::fs::OpenOptions::new().read(true).write(true).create(true).truncate(true).open(path).ok()?;
        f.set_len(CUR_SLOT as u64).ok()?;
        let p = unsafe {
            libc::mmap(
                std::ptr::null_mut(),
                CUR_SLOT,
                libc::PROT_READ | libc::PROT_WRITE,
                libc::MAP_SHARED,
                f.as_raw_fd(),
                0,
            )
        };
        if p == libc::MAP_FAILED {
            return None;
        }
        Some(CurSlot { ptr: p as *mut u8 })
    }
    fn set(&self, tag: u8, payload: &[u8]) {
        let n = payload.len().min(CUR_SLOT - 16);
        unsafe {
            // length 0 first so that a torn write is never read as valid
            std::ptr::write_volatile(self.ptr as *mut u64, 0);
            std::ptr::copy_nonoverlapping(payload.as_ptr(), self.ptr.add(16), n);
            *self.ptr.add(8) = tag;
            *self.ptr.add(9) = (n < payload.len()) as u8;
            std::ptr::write_volatile(self.ptr as *mut u64, n as u64 + 1);
        }
    }
}
pub fn read_cur_slot(path: &Path) -> Option<(u8, bool, Vec<u8>)> {
    let mut f = std::fs::File::open(path).ok()?;
    let mut hdr = [0u8; 16];
    f.read_exact(&mut hdr).ok()?;
    let n = u64::from_le_bytes(hdr[0..8].try_into().unwrap());
    if n == 0 {
        return None;
    }
    let n = (n - 1) as usize;
    let mut buf = vec![0u8; n];
    f.read_exact(&mut buf).ok()?;
    Some((hdr[8], hdr[9] != 0, buf))
}

// ------------------------------------------------------------------------------------------------
pub struct Ctx {
    pub tier: Tier,
    pub seed: u64,
    pub evaluations: u64,
    pub nontrivial: u64,
    digests: HashSet<u64>,
    pub digest_overflow: bool,
    pub features: BTreeMap<String, u64>,
    pub samples: Vec<Value>,
    pub violations: BTreeMap<String, Violation>,
    pub viol_counts: BTreeMap<String, u64>,
    pub maxima: BTreeMap<String, f64>,
    pub notes: Vec<String>,
    cur: Option<CurSlot>,
    pub replay_mode: bool,
}
impl Ctx {
    pub fn new(tier: Tier, seed: u64, cur_path: Option<&Path>) -> Ctx {
        Ctx {
            tier,
            seed,
            evaluations: 0,
            nontrivial: 0,
            digests: HashSet::new(),
            digest_overflow: false,
            features: BTreeMap::new(),
            samples: Vec::new(),
            violations: BTreeMap::new(),
            viol_counts: BTreeMap::new(),
            maxima: BTreeMap::new(),
            notes: Vec::new(),
            cur: cur_path.and_then(CurSlot::open),
            replay_mode: false,
        }
    }
    #[inline]
    pub fn eval(&mut self) {
        self.evaluations += 1;
    }
    #[inline]
    pub fn evals(&mut self, n: u64) {
        self.evaluations += n;
    }
    pub fn nontrivial(&mut self, digest: u64) {
        self.nontrivial += 1;
        if self.digests.len() < DIGEST_CAP {
            self.digests.insert(digest);
        } else if !self.digests.contains(&digest) {
            self.digest_overflow = true;
        }
    }
    pub fn feature(&mut self, name: &str) {
        self.feature_n(name, 1);
    }
    pub fn feature_n(&mut self, name: &str, n: u64) {
        if let Some(v) = self.features.get_mut(name) {
            *v += n;
        } else {
            self.features.insert(name.to_string(), n);
        }
    }
    pub fn want_sample(&self) -> bool {
        self.samples.len() < SAMPLE_CAP
    }
    pub fn sample(&mut self, v: Value) {
        if self.samples.len() < SAMPLE_CAP {
            self.samples.push(v);
        }
    }
    pub fn metric_max(&mut self, name: &str, v: f64) {
        let e = self.maxima.entry(name.to_string()).or_insert(f64::MIN);
        if v > *e {
            *e = v;
        }
    }
    pub fn note(&mut self, s: impl Into<String>) {
        let s = s.into();
        if self.notes.len() < 20 && !self.notes.contains(&s) {
            self.notes.push(s);
        }
    }
    /// Publish the input about to be evaluated (raw text form) so that a hard crash can be attributed.
    #[inline]
    pub fn current_text(&self, text: &str) {
        if let Some(c) = &self.cur {
            c.set(b'T', text.as_bytes());
        }
    }
    pub fn current_json(&self, v: &Value) {
        if let Some(c) = &self.cur {
            c.set(b'J', v.to_string().as_bytes());
        }
    }
    pub fn violation(&mut self, signature: impl Into<String>, what: impl Into<String>, case: Value) {
        let signature = signature.into();
        *self.viol_counts.entry(signature.clone()).or_insert(0) += 1;
        if !self.violations.contains_key(&signature) {
            // keep the smallest witness per signature within this worker
            self.violations.insert(signature.clone(), Violation { signature, what: what.into(), case });
        } else {
            let cur = self.violations.get_mut(&signature).unwrap();
            let new_len = case.to_string().len();
            if new_len < cur.case.to_string().len() {
                cur.case = case;
                cur.what = what.into();
            }
        }
    }
    pub fn panic_violation(&mut self, prefix: &str, pi: &PanicInfo, case: Value) {
        let sig = format!("{}{}", prefix, pi.signature());
        self.violation(sig, format!("panic: {} at {}", pi.message, pi.location), case);
    }
    fn stats_json(&self) -> Value {
        json!({
            "evaluations": self.evaluations,
            "nontrivial": self.nontrivial,
            "digest_overflow": self.digest_overflow,
            "features": self.features,
            "samples": self.samples,
            "viol_counts": self.viol_counts,
            "maxima": self.maxima,
            "notes": self.notes,
        })
    }
}

pub trait Check: Sync {
    fn id(&self) -> &'static str;
    /// number of independent work units for this tier
    fn units(&self, tier: Tier, seed: u64) -> u64;
    fn run_unit(&self, unit: u64, ctx: &mut Ctx);
    /// re-execute one recorded case under the same oracle
    fn replay(&self, case: &Value, ctx: &mut Ctx);
    fn rule(&self) -> String;
    /// (feature, minimum count): coverage floors; a miss makes the run inconclusive
    fn floors(&self, _tier: Tier) -> Vec<(&'static str, u64)> {
        vec![]
    }
    fn exhaustive(&self, _tier: Tier) -> Option<String> {
        None
    }
    fn assumptions(&self) -> Vec<String> {
        vec![]
    }
    /// CPU seconds one unit may burn before it counts as a bounded-progress violation
    fn unit_cpu_budget_s(&self) -> f64 {
        120.0
    }
    fn workers(&self) -> usize {
        16
    }
    fn technique(&self) -> &'static str {
        "runtime monitor over generated workloads"
    }
    /// thorough tier only: re-run part of the workload under a sanitizer / interpreter (see sanit.rs)
    fn sanitizer_steps(&self, _seed: u64, _agg: &mut Agg) {}
}

// ------------------------------------------------------------------------------------------------
// Worker
fn thread_cpu_seconds(handle: libc::pthread_t) -> Option<f64> {
    unsafe {
        let mut cid: libc::clockid_t = 0;
        if libc::pthread_getcpuclockid(handle, &mut cid) != 0 {
            return None;
        }
        let mut ts: libc::timespec = std::mem::zeroed();
        if libc::clock_gettime(cid, &mut ts) != 0 {
            return None;
        }
        Some(ts.tv_sec as f64 + ts.tv_nsec as f64 * 1e-9)
    }
}
pub fn process_cpu_seconds() -> f64 {
    unsafe {
        let mut ts: libc::timespec = std::mem::zeroed();
        libc::clock_gettime(libc::CLOCK_PROCESS_CPUTIME_ID, &mut ts);
        ts.tv_sec as f64 + ts.tv_nsec as f64 * 1e-9
    }
}

pub fn work_dir(id: &str) -> PathBuf {
    let p = PathBuf::from(format!("{}/target/work/{}", VERIF_ROOT, id));
    let _ = std::fs::create_dir_all(&p);
    p
}

pub fn run_worker(check: &'static dyn Check, tier: Tier, seed: u64, wi: u64, wn: u64, skip_through: Option<u64>) -> i32 {
    install_panic_hook();
    let dir = work_dir(check.id());
    let cur_path = dir.join(format!("cur.{}", wi));
    let mut ctx = Ctx::new(tier, seed, Some(&cur_path));
    let units = check.units(tier, seed);
    let out = std::io::stdout();
    let budget = check.unit_cpu_budget_s();
    let mut unit = wi;
    let mut exit_code = 0;
    // a sanitizer build re-runs selected units one at a time
    let single: Option<u64> = std::env::var("VCHECK_SINGLE_UNIT").ok().and_then(|s| s.parse().ok());
    if let Some(u) = single {
        unit = u;
    }
    while unit < units {
        if let Some(s) = skip_through {
            if unit <= s {
                unit += wn;
                continue;
            }
        }
        {
            let mut o = out.lock();
            let _ = writeln!(o, "B {}", unit);
            let _ = o.flush();
        }
        // run the unit on a thread with the server's blocking-thread stack size, watch its CPU clock
        let (tx, rx) = std::sync::mpsc::channel::<Result<Ctx, String>>();
        let ctx_moved = ctx;
        let builder = std::thread::Builder::new().name(format!("case-{}", unit)).stack_size(CASE_STACK);
        let handle = builder
            .spawn(move || {
                let mut c = ctx_moved;
                let r = panic::catch_unwind(AssertUnwindSafe(|| check.run_unit(unit, &mut c)));
                match r {
                    Ok(()) => {
                        let _ = tx.send(Ok(c));
                    }
                    Err(p) => {
                        let msg = if let Some(s) = p.downcast_ref::<&str>() {
                            s.to_string()
                        } else if let Some(s) = p.downcast_ref::<String>() {
                            s.clone()
                        } else {
                            "?".into()
                        };
                        let _ = tx.send(Err(msg));
                    }
                }
            })
            .expect("spawn case thread");
        use std::os::unix::thread::JoinHandleExt;
        let pth = handle.as_pthread_t();
        let started = Instant::now();
        let res = loop {
            match rx.recv_timeout(Duration::from_millis(200)) {
                Ok(r) => break Some(r),
                Err(std::sync::mpsc::RecvTimeoutError::Timeout) => {
                    // CPU of the case thread, plus (for multi-threaded checks) the whole process
                    let cpu = thread_cpu_seconds(pth).unwrap_or(0.0);
                    if cpu > budget {
                        break None;
                    }
                    if started.elapsed() > Duration::from_secs(1800) {
                        let mut o = out.lock();
                        let _ = writeln!(o, "I unit {} exceeded wall-clock watchdog (cpu {:.1}s)", unit, cpu);
                        let _ = o.flush();
                        std::process::exit(4);
                    }
                }
                Err(_) => break Some(Err("case thread vanished".into())),
            }
        };
        match res {
            Some(Ok(c)) => {
                let _ = handle.join();
                ctx = c;
            }
            Some(Err(msg)) => {
                let mut o = out.lock();
                let _ = writeln!(o, "H {}", json!({"unit": unit, "message": msg}));
                let _ = o.flush();
                std::process::exit(5);
            }
            None => {
                // bounded-progress violation: the supervisor reads the current-input slot
                let mut o = out.lock();
                let _ = writeln!(o, "T {}", json!({"unit": unit, "cpu_budget_s": budget}));
                let _ = o.flush();
                std::process::exit(3);
            }
        }
        unit += wn;
        if single.is_some() {
            break;
        }
    }
    // final report
    let digest_path = dir.join(format!("digests.{}", wi));
    if let Ok(mut f) = std::fs::File::create(&digest_path) {
        let mut buf = Vec::with_capacity(ctx.digests.len() * 8);
        for d in &ctx.digests {
            buf.extend_from_slice(&d.to_le_bytes());
        }
        let _ = f.write_all(&buf);
    }
    {
        let mut o = out.lock();
        for v in ctx.violations.values() {
            let _ = writeln!(o, "V {}", json!({"signature": v.signature, "what": v.what, "case": v.case}));
        }
        let _ = writeln!(o, "S {}", ctx.stats_json());
        let _ = o.flush();
    }
    if !take_foreign_panics().is_empty() {
        exit_code = 0; // foreign panics are the checks' business (they drain them); leftovers are ignored
    }
    exit_code
}

// ------------------------------------------------------------------------------------------------
// Supervisor
#[derive(Default)]
pub struct Agg {
    pub evaluations: u64,
    pub nontrivial: u64,
    pub digest_overflow: bool,
    pub features: BTreeMap<String, u64>,
    pub samples: Vec<Value>,
    pub viol_counts: BTreeMap<String, u64>,
    pub violations: BTreeMap<String, Violation>,
    pub maxima: BTreeMap<String, f64>,
    pub notes: Vec<String>,
    pub harness_errors: Vec<String>,
    pub inconclusive: Vec<String>,
}
impl Agg {
    fn add_stats(&mut self, v: &Value) {
        self.evaluations += v["evaluations"].as_u64().unwrap_or(0);
        self.nontrivial += v["nontrivial"].as_u64().unwrap_or(0);
        self.digest_overflow |= v["digest_overflow"].as_bool().unwrap_or(false);
        if let Some(m) = v["features"].as_object() {
            for (k, n) in m {
                *self.features.entry(k.clone()).or_insert(0) += n.as_u64().unwrap_or(0);
            }
        }
        if let Some(a) = v["samples"].as_array() {
            for s in a {
                if self.samples.len() < 6 {
                    self.samples.push(s.clone());
                }
            }
        }
        if let Some(m) = v["viol_counts"].as_object() {
            for (k, n) in m {
                *self.viol_counts.entry(k.clone()).or_insert(0) += n.as_u64().unwrap_or(0);
            }
        }
        if let Some(m) = v["maxima"].as_object() {
            for (k, n) in m {
                let x = n.as_f64().unwrap_or(f64::MIN);
                let e = self.maxima.entry(k.clone()).or_insert(f64::MIN);
                if x > *e {
                    *e = x;
                }
            }
        }
        if let Some(a) = v["notes"].as_array() {
            for s in a {
                if let Some(s) = s.as_str() {
                    if !self.notes.iter().any(|n| n == s) && self.notes.len() < 40 {
                        self.notes.push(s.to_string());
                    }
                }
            }
        }
    }
    fn add_violation(&mut self, v: Violation) {
        match self.violations.get_mut(&v.signature) {
            None => {
                self.violations.insert(v.signature.clone(), v);
            }
            Some(cur) => {
                if v.case.to_string().len() < cur.case.to_string().len() {
                    *cur = v;
                }
            }
        }
    }
}

fn classify_death(status: &std::process::ExitStatus, stderr_tail: &str) -> String {
    use std::os::unix::process::ExitStatusExt;
    if stderr_tail.contains("has overflowed its stack") {
        return "stack-overflow".into();
    }
    if let Some(sig) = status.signal() {
        return match sig {
            libc::SIGSEGV => "SIGSEGV".into(),
            libc::SIGABRT => "SIGABRT".into(),
            libc::SIGBUS => "SIGBUS".into(),
            libc::SIGKILL => "SIGKILL".into(),
            s => format!("signal-{}", s),
        };
    }
    format!("exit-{}", status.code().unwrap_or(-1))
}

fn slot_case(path: &Path, unit: u64) -> Value {
    match read_cur_slot(path) {
        Some((b'T', trunc, bytes)) => {
            json!({"kind": "text", "text": String::from_utf8_lossy(&bytes), "truncated": trunc, "unit": unit})
        }
        Some((b'J', false, bytes)) => serde_json::from_slice::<Value>(&bytes).unwrap_or(json!({"kind": "unit", "unit": unit})),
        _ => json!({"kind": "unit", "unit": unit}),
    }
}

struct WorkerOutcome {
    last_begun: Option<u64>,
    finished: bool,
    status: std::process::ExitStatus,
    stderr_tail: String,
    lines: Vec<(char, String)>,
}

fn spawn_worker(id: &str, tier: Tier, seed: u64, wi: u64, wn: u64, skip: Option<u64>) -> WorkerOutcome {
    let exe = std::env::current_exe().expect("current exe");
    let mut cmd = Command::new(exe);
    cmd.arg(id).arg("--tier").arg(tier.name()).arg("--seed").arg(seed.to_string()).arg("--worker").arg(format!("{}/{}", wi, wn));
    if let Some(s) = skip {
        cmd.arg("--skip-through").arg(s.to_string());
    }
    cmd.stdin(Stdio::null()).stdout(Stdio::piped()).stderr(Stdio::piped());
    let mut child = cmd.spawn().expect("spawn worker");
    let stdout = child.stdout.take().unwrap();
    let mut stderr = child.stderr.take().unwrap();
    let err_thread = std::thread::spawn(move || {
        let mut buf = Vec::new();
        let mut chunk = [0u8; 8192];
        loop {
            match stderr.read(&mut chunk) {
                Ok(0) | Err(_) => break,
                Ok(n) => {
                    buf.extend_from_slice(&chunk[..n]);
                    if buf.len() > 64 * 1024 {
                        let cut = buf.len() - 32 * 1024;
                        buf.drain(..cut);
                    }
                }
            }
        }
        String::from_utf8_lossy(&buf).to_string()
    });
    let mut last_begun = None;
    let mut finished = false;
    let mut lines = Vec::new();
    for line in BufReader::new(stdout).lines() {
        let Ok(line) = line else { break };
        if line.len() < 2 {
            continue;
        }
        let tag = line.as_bytes()[0] as char;
        let rest = line[2..].to_string();
        match tag {
            'B' => last_begun = rest.trim().parse().ok(),
            'S' => {
                finished = true;
                lines.push((tag, rest));
            }
            _ => lines.push((tag, rest)),
        }
    }
    let status = child.wait().expect("wait worker");
    let stderr_tail = err_thread.join().unwrap_or_default();
    WorkerOutcome { last_begun, finished, status, stderr_tail, lines }
}

#[derive(Clone, Debug)]
pub struct KnownFinding {
    pub status: String,
    pub property: String,
    pub signature: String,
    pub what: String,
}
pub fn load_known_findings() -> Vec<KnownFinding> {
    let p = format!("{}/known_findings.json", VERIF_ROOT);
    let Ok(s) = std::fs::read_to_string(&p) else { return vec![] };
    let Ok(v) = serde_json::from_str::<Value>(&s) else {
        eprintln!("known_findings.json does not parse; ignoring it");
        return vec![];
    };
    v.as_array()
        .map(|a| {
            a.iter()
                .map(|e| KnownFinding {
                    status: e["status"].as_str().unwrap_or("").to_string(),
                    property: e["property"].as_str().unwrap_or("").to_string(),
                    signature: e["signature"].as_str().unwrap_or("").to_string(),
                    what: e["what"].as_str().unwrap_or("").to_string(),
                })
                .collect()
        })
        .unwrap_or_default()
}

pub fn supervise(check: &'static dyn Check, tier: Tier, seed: u64) -> i32 {
    let id = check.id();
    let t0 = Instant::now();
    let dir = work_dir(id);
    // clean stale slots
    if let Ok(rd) = std::fs::read_dir(&dir) {
        for e in rd.flatten() {
            let n = e.file_name().to_string_lossy().to_string();
            if n.starts_with("cur.") || n.starts_with("digests.") {
                let _ = std::fs::remove_file(e.path());
            }
        }
    }
    let units = check.units(tier, seed);
    let wn = (check.workers() as u64).min(units.max(1));
    let mut agg = Agg::default();
    let handles: Vec<_> = (0..wn)
        .map(|wi| {
            let id = id.to_string();
            let dir = dir.clone();
            std::thread::spawn(move || {
                // run, and after a crash resume behind the unit that died
                let mut outcomes = Vec::new();
                let mut skip: Option<u64> = None;
                let mut restarts = 0;
                loop {
                    let o = spawn_worker(&id, tier, seed, wi, wn, skip);
                    let done = o.finished;
                    let lb = o.last_begun;
                    let slot = if !done { Some(slot_case(&dir.join(format!("cur.{}", wi)), lb.unwrap_or(0))) } else { None };
                    outcomes.push((o, slot));
                    if done {
                        break;
                    }
                    restarts += 1;
                    match lb {
                        Some(u) if restarts < 50 => skip = Some(u),
                        _ => break,
                    }
                }
                outcomes
            })
        })
        .collect();
    for h in handles {
        let outcomes = h.join().expect("supervisor thread");
        for (o, slot) in outcomes {
            for (tag, rest) in &o.lines {
                match tag {
                    'V' => {
                        if let Ok(v) = serde_json::from_str::<Value>(rest) {
                            agg.add_violation(Violation {
                                signature: v["signature"].as_str().unwrap_or("?").to_string(),
                                what: v["what"].as_str().unwrap_or("").to_string(),
                                case: v["case"].clone(),
                            });
                        }
                    }
                    'S' => {
                        if let Ok(v) = serde_json::from_str::<Value>(rest) {
                            agg.add_stats(&v);
                        }
                    }
                    'H' => agg.harness_errors.push(rest.clone()),
                    'I' => agg.inconclusive.push(rest.clone()),
                    'T' => {
                        let case = slot.clone().unwrap_or(json!({"kind": "unit"}));
                        agg.add_violation(Violation {
                            signature: "bounded-progress:cpu-budget".into(),
                            what: format!("a unit that normally costs well under a second burned its CPU budget ({})", rest),
                            case,
                        });
                    }
                    _ => {}
                }
            }
            if !o.finished {
                let code = o.status.code();
                if code == Some(3) || code == Some(4) || code == Some(5) {
                    continue; // already reported through a T / I / H line
                }
                let class = classify_death(&o.status, &o.stderr_tail);
                let case = slot.unwrap_or(json!({"kind": "unit"}));
                let tail: String = o.stderr_tail.lines().rev().take(6).collect::<Vec<_>>().into_iter().rev().collect::<Vec<_>>().join(" | ");
                if class.starts_with("exit-") && o.last_begun.is_none() {
                    agg.harness_errors.push(format!("worker died before its first unit: {} {}", class, tail));
                } else if class == "SIGKILL" {
                    agg.inconclusive.push(format!("worker killed (SIGKILL; out of memory?) in unit {:?}", o.last_begun));
                } else {
                    agg.add_violation(Violation {
                        signature: format!("crash:{}", class),
                        what: format!("process died ({}) while evaluating the recorded case; stderr: {}", class, tail),
                        case,
                    });
                }
            }
        }
    }
    // distinct digests: union of the workers' sets
    let mut all: HashSet<u64> = HashSet::new();
    for wi in 0..wn {
        if let Ok(bytes) = std::fs::read(dir.join(format!("digests.{}", wi))) {
            for ch in bytes.chunks_exact(8) {
                all.insert(u64::from_le_bytes(ch.try_into().unwrap()));
            }
        }
        let _ = std::fs::remove_file(dir.join(format!("digests.{}", wi)));
    }
    let distinct = all.len() as u64;
    if tier == Tier::Thorough && std::env::var_os("VCHECK_NO_SANITIZERS").is_none() {
        check.sanitizer_steps(seed, &mut agg);
    }
    finish(check, tier, seed, agg, distinct, t0.elapsed().as_secs_f64(), false)
}

pub fn finish(check: &'static dyn Check, tier: Tier, seed: u64, agg: Agg, distinct: u64, wall: f64, replay: bool) -> i32 {
    let id = check.id();
    let known = load_known_findings();
    let mut new_viol: Vec<&Violation> = Vec::new();
    let mut known_hit: Vec<(&Violation, &KnownFinding)> = Vec::new();
    for v in agg.violations.values() {
        match known.iter().find(|k| k.status == "open" && k.property == id && k.signature == v.signature) {
            Some(k) => known_hit.push((v, k)),
            None => new_viol.push(v),
        }
    }
    // coverage floors
    let mut floor_misses = Vec::new();
    if !replay {
        for (f, min) in check.floors(tier) {
            let got = agg.features.get(f).copied().unwrap_or(0);
            if got < min {
                floor_misses.push(format!("feature '{}' observed {} times, floor {}", f, got, min));
            }
        }
        if agg.evaluations == 0 {
            floor_misses.push("no evaluations".into());
        }
        if let Some(n) = agg.features.get("watchdog") {
            floor_misses.push(format!("a wall-clock watchdog fired {} time(s) without a logical witness (see notes): no verdict for those samples", n));
        }
    }
    let verdict = if !new_viol.is_empty() {
        "violated"
    } else if !agg.harness_errors.is_empty() || !agg.inconclusive.is_empty() || !floor_misses.is_empty() {
        "inconclusive"
    } else {
        "held"
    };
    // replay files
    let rdir = PathBuf::from(format!("{}/replays/{}", VERIF_ROOT, id));
    let _ = std::fs::create_dir_all(&rdir);
    let mut lines = Vec::new();
    for v in &new_viol {
        let path = rdir.join(format!("{:016x}.json", fnv64(v.signature.as_bytes())));
        let body = json!({"property": id, "tier": tier.name(), "seed": seed, "signature": v.signature, "what": v.what, "case": v.case});
        let _ = std::fs::write(&path, serde_json::to_string_pretty(&body).unwrap());
        lines.push(format!("VIOLATION property={} replay={}", id, path.display()));
        eprintln!("  [{}] {} -- {}", id, v.signature, v.what);
    }
    for (v, k) in &known_hit {
        let path = rdir.join(format!("known-{:016x}.json", fnv64(v.signature.as_bytes())));
        let body = json!({"property": id, "tier": tier.name(), "seed": seed, "signature": v.signature, "what": v.what, "case": v.case, "known": true});
        let _ = std::fs::write(&path, serde_json::to_string_pretty(&body).unwrap());
        println!("KNOWN-FINDING: property={} {} [signature {}; seen {}x this run]", id, k.what, k.signature, agg.viol_counts.get(&v.signature).copied().unwrap_or(1));
    }
    for l in &lines {
        println!("{}", l);
    }
    if verdict == "inconclusive" {
        let mut reasons: Vec<String> = Vec::new();
        reasons.extend(agg.harness_errors.iter().map(|s| format!("harness: {}", s)));
        reasons.extend(agg.inconclusive.iter().cloned());
        reasons.extend(floor_misses.iter().cloned());
        println!("INCONCLUSIVE property={} reason={}", id, reasons.join("; "));
    }
    if !replay {
        let mut samples = agg.samples.clone();
        if samples.is_empty() {
            samples.push(json!("(no sample recorded)"));
        }
        let mut coverage = json!({
            "evaluations": agg.evaluations,
            "distinct_nontrivial": distinct,
            "nontrivial_evaluations": agg.nontrivial,
            "distinct_is_lower_bound": agg.digest_overflow,
            "rule": check.rule(),
            "samples": samples,
            "features": agg.features,
            "maxima": agg.maxima,
            "notes": agg.notes,
        });
        if let Some(space) = check.exhaustive(tier) {
            coverage["exhaustive"] = json!(true);
            coverage["exhaustive_space"] = json!(space);
        }
        let ev = json!({
            "property_id": id,
            "tier": tier.name(),
            "seed": seed,
            "level": "exploration",
            "coverage": coverage,
            "assumptions": check.assumptions(),
            "wall_s": (wall * 100.0).round() / 100.0,
            "violations": new_viol.len(),
            "verdict": verdict,
            "technique": check.technique(),
            "known_findings_hit": known_hit.iter().map(|(v, _)| json!({"signature": v.signature, "count": agg.viol_counts.get(&v.signature).copied().unwrap_or(1)})).collect::<Vec<_>>(),
            "violation_signatures": new_viol.iter().map(|v| v.signature.clone()).collect::<Vec<_>>(),
            "inconclusive_reasons": floor_misses,
        });
        let edir = format!("{}/evidence", VERIF_ROOT);
        let _ = std::fs::create_dir_all(&edir);
        let _ = std::fs::write(format!("{}/{}.json", edir, id), serde_json::to_string_pretty(&ev).unwrap());
    }
    eprintln!(
        "[{}] {} tier={} seed={} evaluations={} distinct_nontrivial={} new_violations={} known={} wall={:.1}s",
        id,
        verdict,
        tier.name(),
        seed,
        agg.evaluations,
        distinct,
        new_viol.len(),
        known_hit.len(),
        wall
    );
    match verdict {
        "violated" => 1,
        "inconclusive" => 2,
        _ => 0,
    }
}

pub fn run_replay(check: &'static dyn Check, path: &str) -> i32 {
    install_panic_hook();
    let Ok(s) = std::fs::read_to_string(path) else {
        println!("INCONCLUSIVE property={} reason=cannot read replay file {}", check.id(), path);
        return 2;
    };
    let Ok(v) = serde_json::from_str::<Value>(&s) else {
        println!("INCONCLUSIVE property={} reason=replay file does not parse", check.id());
        return 2;
    };
    let tier = if v["tier"].as_str() == Some("thorough") { Tier::Thorough } else { Tier::Quick };
    let seed = v["seed"].as_u64().unwrap_or(1);
    let case = v["case"].clone();
    let (tx, rx) = std::sync::mpsc::channel();
    let t0 = Instant::now();
    let h = std::thread::Builder::new()
        .stack_size(CASE_STACK)
        .spawn(move || {
            let mut ctx = Ctx::new(tier, seed, None);
            ctx.replay_mode = true;
            check.replay(&case, &mut ctx);
            let _ = tx.send(ctx);
        })
        .unwrap();
    let ctx = rx.recv().expect("replay thread died");
    let _ = h.join();
    let holder = Agg {
        evaluations: ctx.evaluations,
        nontrivial: ctx.nontrivial,
        digest_overflow: false,
        features: ctx.features.clone(),
        samples: vec![],
        viol_counts: ctx.viol_counts.clone(),
        violations: ctx.violations.clone(),
        maxima: ctx.maxima.clone(),
        notes: vec![],
        harness_errors: vec![],
        inconclusive: vec![],
    };
    finish(check, tier, seed, holder, 0, t0.elapsed().as_secs_f64(), true)
}
