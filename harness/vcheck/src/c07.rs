//! C07 incremental consistency: after any history of edits and root switches the long-lived AnalysisHost
//! answers the whole query sweep exactly like a fresh host given only the final file contents.
use crate::core::*;
use crate::gprog;
use crate::sweep::{self, SweepOptions};
use crate::texts;
use crate::ws::{self, Workspace};
use serde_json::{json, Value};

pub struct C07;

#[derive(Clone, Debug)]
pub enum Op {
    /// new text for a file (root stays what it is)
    Edit(usize, String),
    /// the file becomes the root (the server's didOpen/didChange of that document)
    SwitchRoot(usize),
    /// the file disappears from disk (only meaningful for included files)
    Remove(usize),
}

fn op_json(paths: &[String], op: &Op) -> Value {
    match op {
        Op::Edit(f, t) => json!({"op": "edit", "file": paths[*f], "text": t}),
        Op::SwitchRoot(f) => json!({"op": "switch_root", "file": paths[*f]}),
        Op::Remove(f) => json!({"op": "remove", "file": paths[*f]}),
    }
}

fn variants(paths: &[String], fi: usize, original: &str, rng: &mut Rng) -> Vec<(String, &'static str)> {
    let mut v: Vec<(String, &'static str)> = vec![(original.to_string(), "restore-original")];
    let lines: Vec<&str> = original.split_inclusive('\n').collect();
    let inc_idx: Vec<usize> = lines.iter().enumerate().filter(|(_, l)| l.trim_start().starts_with("include ")).map(|(i, _)| i).collect();
    let rel = |to: usize| -> String {
        // path of file `to` as written from file `fi`'s directory
        let from_dir = paths[fi].rsplitn(2, '/').nth(1).unwrap_or("");
        paths[to].strip_prefix(&format!("{}/", from_dir)).unwrap_or(&paths[to]).to_string()
    };
    // shift everything (also the include statements) without changing them
    v.push((format!("// shifted\n\n{}", original), "shift-includes"));
    if !inc_idx.is_empty() {
        // drop one include
        let k = inc_idx[rng.below(inc_idx.len())];
        let t: String = lines.iter().enumerate().filter(|(i, _)| *i != k).map(|(_, l)| *l).collect();
        v.push((t, "remove-include"));
        // retarget an include in place (same statement range when the names have equal length)
        let others: Vec<usize> = (0..paths.len()).filter(|o| *o != fi).collect();
        if !others.is_empty() {
            let to = others[rng.below(others.len())];
            let t: String = lines.iter().enumerate().map(|(i, l)| if i == k { format!("include \"{}\"\n", rel(to)) } else { l.to_string() }).collect();
            v.push((t, "retarget-include"));
        }
        if inc_idx.len() >= 2 {
            let mut ls: Vec<String> = lines.iter().map(|l| l.to_string()).collect();
            ls.swap(inc_idx[0], inc_idx[1]);
            v.push((ls.concat(), "reorder-includes"));
        }
    }
    // add an include of another file at the top / in the middle
    if paths.len() > 1 && fi == 0 {
        let to = 1 + rng.below(paths.len() - 1);
        v.push((format!("include \"{}\"\n{}", rel(to), original), "add-include"));
        let mid = lines.len() / 2;
        let t: String = lines.iter().enumerate().map(|(i, l)| if i == mid { format!("include \"{}\"\n{}", rel(to), l) } else { l.to_string() }).collect();
        v.push((t, "add-include"));
    }
    // break and change the syntax
    for _ in 0..3 {
        let (m, _) = texts::mutate(original, rng);
        if m.len() < 20_000 {
            v.push((m, "mutate"));
        }
    }
    // a different program altogether
    v.push(("class Replacement { int z = 1; }\ndef repl : Replacement;\n".to_string(), "replace-all"));
    v.push((String::new(), "empty"));
    v
}

fn run_history(base: &Workspace, ops: &[(Op, &'static str)], ctx: &mut Ctx, exhaustive: bool) {
    let paths: Vec<String> = base.files.iter().map(|f| f.0.clone()).collect();
    let history_json = |upto: usize| -> Value {
        let mut v = base.to_json();
        v["kind"] = json!("history");
        v["ops"] = json!(ops[..upto].iter().map(|(o, _)| op_json(&paths, o)).collect::<Vec<_>>());
        v
    };
    ctx.current_json(&history_json(ops.len()));
    let r = guard(|| {
        let mut viol: Vec<(String, String, usize)> = Vec::new();
        let mut l = ws::load(base);
        // state of the "disk" and which file is the root, as the reference sees it
        let mut texts_now: Vec<Option<String>> = base.files.iter().map(|f| Some(f.1.clone())).collect();
        let mut root = base.root;
        let opt = SweepOptions { all_offsets_up_to: 300, max_offsets: 120, sub_ranges: 2, salt: 3 };
        let mut steps = 0u64;
        let mut queries = 0u64;
        for (i, (op, tag)) in ops.iter().enumerate() {
            match op {
                Op::Edit(f, t) => {
                    texts_now[*f] = Some(t.clone());
                    l.fs.write(&paths[*f], t);
                    if let Some(id) = l.fs.id_of(&paths[*f]) {
                        l.host.set_file_content(id, std::sync::Arc::from(t.as_str()));
                    }
                    let rid = l.root;
                    l.host.set_root_file(&mut l.fs, rid);
                }
                Op::SwitchRoot(f) => {
                    let Some(t) = texts_now[*f].clone() else { continue };
                    root = *f;
                    l.edit_and_root(&paths[*f], &t);
                }
                Op::Remove(f) => {
                    if *f == root {
                        continue;
                    }
                    texts_now[*f] = None;
                    l.fs.remove(&paths[*f]);
                    let rid = l.root;
                    l.host.set_root_file(&mut l.fs, rid);
                }
            }
            steps += 1;
            // fresh analysis of the final state only
            let now = Workspace {
                files: paths.iter().zip(&texts_now).filter_map(|(p, t)| t.as_ref().map(|t| (p.clone(), t.clone()))).collect(),
                root: 0,
            };
            let root_path = &paths[root];
            let now = Workspace { root: now.files.iter().position(|f| &f.0 == root_path).unwrap_or(0), ..now };
            let fresh = ws::load(&now);
            let (a, pa) = sweep::sweep(&l, &now, &opt);
            let (b, pb) = sweep::sweep(&fresh, &now, &opt);
            queries += sweep::query_count(&a);
            if pa.len() != pb.len() {
                viol.push(("panics-differ".into(), format!("after step {} ({}): {} panics on the long-lived host, {} on a fresh one", i, tag, pa.len(), pb.len()), i + 1));
                break;
            }
            if let Some((kind, what)) = sweep::first_difference(&a, &b) {
                viol.push((format!("{}:after-{}", kind, tag), format!("after step {} ({}): long-lived vs fresh: {}", i, tag, what.chars().take(500).collect::<String>()), i + 1));
                break;
            }
        }
        (viol, steps, queries)
    });
    match r {
        Err(pi) => ctx.panic_violation("history:", &pi, history_json(ops.len())),
        Ok((viol, steps, queries)) => {
            ctx.evals(steps);
            ctx.feature_n("queries_compared", queries);
            ctx.feature_n("steps", steps);
            for (_, tag) in ops {
                ctx.feature(&format!("op:{}", tag));
            }
            let mut h = base.digest();
            for (o, _) in ops {
                h = h.rotate_left(5) ^ fnv64(op_json(&paths, o).to_string().as_bytes());
            }
            ctx.nontrivial(h);
            ctx.feature(if exhaustive { "exhaustive_histories" } else { "random_histories" });
            for (sig, what, upto) in viol {
                ctx.violation(sig, what, history_json(upto));
            }
            if ctx.want_sample() {
                ctx.sample(json!({"files": paths, "ops": ops.iter().map(|(_, t)| *t).collect::<Vec<_>>()}));
            }
        }
    }
}

fn base_for(unit: u64, k: u64, ctx: &mut Ctx) -> (Workspace, Rng) {
    let mut rng = Rng::derive(ctx.seed, 0x7000, unit * 1000 + k);
    let mut cfg = gprog::Cfg::default_for(&mut rng);
    cfg.max_includes = rng.range(1, 3);
    cfg.statements = rng.range(3, 7);
    let p = gprog::generate(&mut rng, cfg);
    (p.workspace(), rng)
}

fn random_op(base: &Workspace, pools: &[Vec<(String, &'static str)>], rng: &mut Rng, turn: usize) -> (Op, &'static str) {
    let n = base.files.len();
    match rng.below(10) {
        0 | 1 => (Op::SwitchRoot(rng.below(n)), "switch-root"),
        2 if n > 1 => (Op::Remove(1 + rng.below(n - 1)), "remove-file"),
        _ => {
            // the variant is taken round-robin (every kind of edit is visited by construction), the file at random
            let f = if turn % 3 == 0 { 0 } else { rng.below(n) };
            let (t, tag) = pools[f][turn % pools[f].len()].clone();
            (Op::Edit(f, t), tag)
        }
    }
}

impl Check for C07 {
    fn id(&self) -> &'static str {
        "C07"
    }
    fn units(&self, tier: Tier, _seed: u64) -> u64 {
        tier.pick(64, 480)
    }
    fn run_unit(&self, unit: u64, ctx: &mut Ctx) {
        // per unit: random histories, and (every unit) all 2-step histories over a 6-variant pool of one base
        for k in 0..ctx.tier.pick(6, 30) {
            let (base, mut rng) = base_for(unit, k, ctx);
            let paths: Vec<String> = base.files.iter().map(|f| f.0.clone()).collect();
            let pools: Vec<Vec<(String, &'static str)>> = (0..base.files.len()).map(|f| variants(&paths, f, &base.files[f].1, &mut rng)).collect();
            let len = ctx.tier.pick(8, 12);
            let ops: Vec<(Op, &'static str)> = (0..len).map(|j| random_op(&base, &pools, &mut rng, (unit as usize) * 5 + (k as usize) * 3 + j)).collect();
            run_history(&base, &ops, ctx, false);
        }
        let (base, mut rng) = base_for(unit, 999, ctx);
        let paths: Vec<String> = base.files.iter().map(|f| f.0.clone()).collect();
        let mut pool: Vec<(Op, &'static str)> = Vec::new();
        for f in 0..base.files.len().min(2) {
            let vs = variants(&paths, f, &base.files[f].1, &mut rng);
            for (t, tag) in vs.into_iter().filter(|v| v.1 != "mutate" && v.1 != "empty").take(3) {
                pool.push((Op::Edit(f, t), tag));
            }
        }
        pool.truncate(5);
        pool.push((Op::SwitchRoot(base.files.len() - 1), "switch-root"));
        for a in 0..pool.len() {
            for b in 0..pool.len() {
                run_history(&base, &[pool[a].clone(), pool[b].clone()], ctx, true);
            }
        }
    }
    fn replay(&self, case: &Value, ctx: &mut Ctx) {
        let Some(base) = Workspace::from_json(case) else { return };
        let paths: Vec<String> = base.files.iter().map(|f| f.0.clone()).collect();
        let idx = |p: &str| paths.iter().position(|q| q == p);
        let mut ops: Vec<(Op, &'static str)> = Vec::new();
        for o in case["ops"].as_array().cloned().unwrap_or_default() {
            let Some(f) = o["file"].as_str().and_then(idx) else { continue };
            match o["op"].as_str() {
                Some("edit") => ops.push((Op::Edit(f, o["text"].as_str().unwrap_or("").to_string()), "replayed")),
                Some("switch_root") => ops.push((Op::SwitchRoot(f), "replayed")),
                Some("remove") => ops.push((Op::Remove(f), "replayed")),
                _ => {}
            }
        }
        run_history(&base, &ops, ctx, false);
    }
    fn rule(&self) -> String {
        "histories over generated 2-4 file workspaces (root including 1-3 files). Operations: Edit(file, text') = write to the file system + set_file_content + set_root_file(current root) - the edit protocol the server uses; SwitchRoot(file) = that file's text is (re)sent and it becomes the root; Remove(included file). text' is drawn from a per-file pool: the original, a version shifted by two lines (include statements move without changing), one include removed / retargeted in place / two reordered / an include added at the top or in the middle, three random syntactic mutations, a completely different program, the empty text. RANDOM: histories of 8 (thorough 12) operations. EXHAUSTIVE: per unit all 36 two-step histories over a 6-operation pool of one base. After EVERY step the full query sweep of the long-lived host is compared with the sweep of a fresh AnalysisHost + fresh file system holding only the final texts and root (FileIds mapped to paths, hash-ordered collections sorted, nothing else normalised). non-trivial = every history; distinct by digest of base texts + operation sequence".into()
    }
    fn floors(&self, tier: Tier) -> Vec<(&'static str, u64)> {
        let n = tier.pick(300, 12_000);
        vec![("random_histories", n), ("exhaustive_histories", tier.pick(1400, 10_000)), ("op:switch-root", n), ("op:remove-include", n / 8), ("op:retarget-include", n / 8), ("op:add-include", n / 8), ("op:shift-includes", n / 8), ("op:mutate", n), ("op:remove-file", n / 4), ("queries_compared", n * 1000)]
    }
    fn exhaustive(&self, _tier: Tier) -> Option<String> {
        Some("sub-space: all 36 two-step histories over a 6-operation pool, for one base workspace per unit".into())
    }
    fn assumptions(&self) -> Vec<String> {
        vec!["every text change is followed by set_root_file, as the server always pairs them".into(), "a fresh AnalysisHost on the final state is the specification of the answer".into()]
    }
    fn unit_cpu_budget_s(&self) -> f64 {
        600.0
    }
    fn technique(&self) -> &'static str {
        "differential monitor: long-lived host after every step of an edit history vs a from-scratch host on the final state, full query sweep"
    }
}
