//! C15 preprocessor: token selection against a reference evaluation of the conditionals (`refpp`), errors
//! for unterminated conditionals and nameless directives, and nothing leaking out of disabled text.
use crate::core::*;
use crate::ws;
use serde_json::{json, Value};
use syntax::syntax_kind::SyntaxKind;

pub struct C15;

#[derive(Clone, Copy, PartialEq, Eq, Debug)]
pub enum Item {
    Define(u8),
    Ifdef(u8),
    Ifndef(u8),
    Else,
    Endif,
    Marker,
    IfdefNoName,
    DefineNoName,
}
const ITEMS: [Item; 11] = [
    Item::Define(0),
    Item::Define(1),
    Item::Ifdef(0),
    Item::Ifdef(1),
    Item::Ifndef(0),
    Item::Ifndef(1),
    Item::Else,
    Item::Endif,
    Item::Marker,
    Item::IfdefNoName,
    Item::DefineNoName,
];
// (macro names are identifiers: letters, digits, underscores, not starting with a digit)
const MACROS: [&str; 2] = ["AAA", "__B_2_TD__"];

/// Outcome of the reference evaluation of a directive/marker sequence.
pub struct RefEval {
    pub well_nested: bool,    // every #else/#endif matches, at most one #else per conditional
    pub open_at_eof: usize,   // conditionals still open at the end
    pub selected: Vec<usize>, // indices of the enabled markers
    pub nameless_enabled: bool,
    pub nameless_any: bool,
}

pub fn refpp(seq: &[Item]) -> RefEval {
    // stack entries: (parent_enabled, condition_true, seen_else)
    let mut stack: Vec<(bool, bool, bool)> = Vec::new();
    let mut defined = [false; 2];
    let mut selected = Vec::new();
    let mut well_nested = true;
    let mut nameless_enabled = false;
    let mut nameless_any = false;
    let enabled = |stack: &Vec<(bool, bool, bool)>| match stack.last() {
        None => true,
        Some(&(p, c, e)) => p && (c != e),
    };
    for (i, it) in seq.iter().enumerate() {
        let en = enabled(&stack);
        match *it {
            Item::Define(m) => {
                if en {
                    defined[m as usize] = true;
                }
            }
            Item::Ifdef(m) => stack.push((en, defined[m as usize], false)),
            Item::Ifndef(m) => stack.push((en, !defined[m as usize], false)),
            Item::Else => match stack.last_mut() {
                Some(top) if !top.2 => top.2 = true,
                _ => well_nested = false,
            },
            Item::Endif => {
                if stack.pop().is_none() {
                    well_nested = false;
                }
            }
            Item::Marker => {
                if en {
                    selected.push(i);
                }
            }
            Item::IfdefNoName | Item::DefineNoName => {
                nameless_any = true;
                if en {
                    nameless_enabled = true;
                }
            }
        }
        if !well_nested {
            break;
        }
    }
    RefEval { well_nested, open_at_eof: stack.len(), selected, nameless_enabled, nameless_any }
}

pub fn render(seq: &[Item]) -> String {
    render_with(seq, &[])
}
/// `hostile`: indices of markers (the disabled ones) that are followed, on their line, by text the lexer rejects
pub fn render_with(seq: &[Item], hostile: &[usize]) -> String {
    render_styled(seq, hostile, Style::Plain)
}
#[derive(Clone, Copy, PartialEq, Eq)]
pub enum Style {
    Plain,
    /// every marker line also carries directive words inside a line comment, a block comment and a string
    Decoy,
    /// `#else` and `#endif` have a comment glued to them (`#else// c`, `#endif/* c */`)
    Glued,
    /// every marker is accompanied by a directive word in another letter case (`#Else`, `#ENDIF`, `#Ifdef AAA`,
    /// `#DEFINE ..`): TableGen's directives are exactly the five lower-case words, anything else after `#` is a
    /// paste operator followed by an identifier (llvm-tblgen: `"a"#Endif` is a paste, `#Else` inside a disabled
    /// region does not end it)
    Miscased,
}
pub fn render_styled(seq: &[Item], hostile: &[usize], style: Style) -> String {
    let mut s = String::new();
    for (i, it) in seq.iter().enumerate() {
        if hostile.contains(&i) {
            s.push_str(&format!("mk{} !bogus \"open\n", i));
            continue;
        }
        match (*it, style) {
            (Item::Marker, Style::Decoy) => {
                if i % 2 == 0 {
                    s.push_str(&format!("mk{} // #endif #else #ifdef AAA\n", i));
                } else {
                    s.push_str(&format!("mk{} /* #else */ \"#endif\" /* #ifndef BBB */\n", i));
                }
                continue;
            }
            (Item::Marker, Style::Miscased) => {
                match i % 4 {
                    0 => s.push_str(&format!("mk{}\n#Else\n", i)),
                    1 => s.push_str(&format!("mk{} #ENDIF\n", i)),
                    2 => s.push_str(&format!("#Ifdef {}\nmk{}\n", MACROS[0], i)),
                    _ => s.push_str(&format!("mk{} #DEFINE {}\n#Define {}\n", i, MACROS[1], MACROS[0])),
                }
                continue;
            }
            (Item::Else, Style::Glued) => {
                s.push_str("#else// c\n");
                continue;
            }
            (Item::Endif, Style::Glued) => {
                s.push_str("#endif/* c */\n");
                continue;
            }
            _ => {}
        }
        match *it {
            Item::Define(m) => s.push_str(&format!("#define {}\n", MACROS[m as usize])),
            Item::Ifdef(m) => s.push_str(&format!("#ifdef {}\n", MACROS[m as usize])),
            Item::Ifndef(m) => s.push_str(&format!("#ifndef {}\n", MACROS[m as usize])),
            Item::Else => s.push_str("#else\n"),
            Item::Endif => s.push_str("#endif\n"),
            Item::Marker => s.push_str(&format!("mk{}\n", i)),
            // (alternately with and without blanks between the directive and the line break)
            Item::IfdefNoName => s.push_str(["#ifdef\n", "#ifdef \n", "#ifdef\t \n", "#ifdef /* c */ \n"][i % 4]),
            Item::DefineNoName => s.push_str(["#define\n", "#define \t\n", "#define  \n", "#define /* c */\n"][(i + 1) % 4]),
        }
    }
    s
}

fn case_of(seq: &[Item], text: &str) -> Value {
    json!({"kind": "text", "text": text, "items": seq.iter().map(|i| format!("{:?}", i)).collect::<Vec<_>>()})
}

fn shape(seq: &[Item]) -> String {
    // signature material: the sequence with macro identities erased
    seq.iter()
        .map(|i| match i {
            Item::Define(_) => "D",
            Item::Ifdef(_) => "I",
            Item::Ifndef(_) => "N",
            Item::Else => "E",
            Item::Endif => "F",
            Item::Marker => "m",
            Item::IfdefNoName => "i0",
            Item::DefineNoName => "d0",
        })
        .collect::<Vec<_>>()
        .join("")
}

pub fn check_seq(seq: &[Item], ctx: &mut Ctx) {
    let ev = refpp(seq);
    if !ev.well_nested {
        return; // stray #else/#endif: outside the statement
    }
    check_seq_rendered(seq, &ev, &[], Style::Plain, ctx);
    // renderings three and four (fully named, closed or unterminated sequences with a conditional): directive
    // words inside comments and strings on every marker line; comments glued to #else / #endif
    if !ev.nameless_any && seq.iter().any(|i| matches!(i, Item::Ifdef(_) | Item::Ifndef(_))) {
        if seq.contains(&Item::Marker) {
            ctx.feature("directive_words_in_comments_and_strings");
            check_seq_rendered(seq, &ev, &[], Style::Decoy, ctx);
        }
        if seq.contains(&Item::Else) || seq.contains(&Item::Endif) {
            ctx.feature("comment_glued_to_directive");
            check_seq_rendered(seq, &ev, &[], Style::Glued, ctx);
        }
        if seq.contains(&Item::Marker) {
            ctx.feature("miscased_directive_words");
            check_seq_rendered(seq, &ev, &[], Style::Miscased, ctx);
        }
    }
    // second rendering: the disabled markers carry text the lexer rejects (an unknown operator, an unterminated
    // string); nothing about it may surface, and the preprocessor's own errors must still be the ones reported
    // (only markers in front of the first nameless directive: the reference evaluation is exact up to there)
    let first_nameless = seq.iter().position(|i| matches!(i, Item::IfdefNoName | Item::DefineNoName)).unwrap_or(seq.len());
    let disabled: Vec<usize> = seq.iter().enumerate().filter(|(i, it)| *i < first_nameless && **it == Item::Marker && !ev.selected.contains(i)).map(|(i, _)| i).collect();
    if !disabled.is_empty() {
        ctx.feature("lexically_bad_disabled_text");
        check_seq_rendered(seq, &ev, &disabled, Style::Plain, ctx);
    }
}

fn check_seq_rendered(seq: &[Item], ev: &RefEval, hostile: &[usize], style: Style, ctx: &mut Ctx) {
    let text = render_styled(seq, hostile, style);
    ctx.eval();
    ctx.current_text(&text);
    syntax::verif::arm(64 * (text.len() as u64 + 8));
    let parsed = guard(|| {
        let p = syntax::parse(&text);
        let root = p.syntax_node();
        let mut ids = Vec::new();
        let mut error_tokens = 0;
        for el in root.descendants_with_tokens() {
            if let Some(t) = el.as_token() {
                let k = t.kind();
                if k == SyntaxKind::Error {
                    error_tokens += 1;
                }
                // (the mis-cased rendering adds identifiers of its own - `Else`, `ENDIF`, the macro names: only
                // the markers are compared there)
                if k == SyntaxKind::Id && (style != Style::Miscased || t.text().starts_with("mk")) {
                    ids.push(t.text().to_string());
                }
            }
        }
        (ids, error_tokens, p.errors().iter().map(|e| e.message.clone()).collect::<Vec<_>>())
    });
    syntax::verif::disarm();
    let (ids, error_tokens, errors) = match parsed {
        Ok(x) => x,
        Err(pi) => {
            if pi.is_budget() {
                ctx.violation("pp:non-progress", "the preprocessor / parser exhausted its step budget (stopped consuming input)".to_string(), case_of(seq, &text));
            } else {
                ctx.panic_violation("pp:", &pi, case_of(seq, &text));
            }
            return;
        }
    };
    let has_cond = seq.iter().any(|i| matches!(i, Item::Ifdef(_) | Item::Ifndef(_)));
    if has_cond {
        ctx.nontrivial(fnv64(text.as_bytes()));
    }
    if !ev.nameless_any && ev.open_at_eof == 0 {
        // token-selection oracle
        ctx.feature("well_nested");
        let want: Vec<String> = ev.selected.iter().map(|i| format!("mk{}", i)).collect();
        if ids != want {
            let depth = max_depth(seq);
            ctx.violation(
                format!("selection:depth{}:{}", depth.min(3), if ids.len() > want.len() { "extra" } else if ids.len() < want.len() { "missing" } else { "different" }),
                format!("delivered identifiers {:?}, reference selects {:?}", ids, want),
                case_of(seq, &text),
            );
        }
        if error_tokens > 0 {
            ctx.violation("selection:error-token", format!("lexical error token in a well-nested arrangement: {:?}", errors), case_of(seq, &text));
        }
        // the only syntax errors allowed are the ones about the bare marker identifiers
        if ev.selected.len() < seq.iter().filter(|i| **i == Item::Marker).count() {
            ctx.feature("has_disabled_marker");
        }
    } else if !ev.nameless_any && ev.open_at_eof > 0 {
        // unterminated conditional: must be reported
        ctx.feature("unterminated");
        let reported = errors.iter().any(|m| {
            let m = m.to_lowercase();
            m.contains("endif") || m.contains("eof") || m.contains("unterminated") || m.contains("#if")
        });
        if !reported {
            // which branch is open at the end: enabled or disabled text
            let last_enabled = tail_enabled(seq);
            ctx.violation(
                format!("unterminated-silent:{}", if last_enabled { "enabled-branch" } else { "disabled-branch" }),
                format!("{} conditional(s) open at end of file but no error mentions it (errors: {:?})", ev.open_at_eof, errors),
                case_of(seq, &text),
            );
        }
    } else if ev.nameless_enabled && seq.iter().filter(|i| matches!(i, Item::IfdefNoName | Item::DefineNoName)).count() == 1 {
        // exactly one nameless directive, in enabled text: must be reported
        ctx.feature("nameless");
        let which = if seq.contains(&Item::IfdefNoName) { "ifdef" } else { "define" };
        let reported = errors.iter().any(|m| m.to_lowercase().contains("macro name"));
        if !reported {
            let idx = seq.iter().position(|i| matches!(i, Item::IfdefNoName | Item::DefineNoName)).unwrap();
            let next = seq.get(idx + 1).map(|i| match i {
                Item::Marker => "identifier-on-next-line",
                _ => "directive",
            }).unwrap_or("eof");
            ctx.violation(
                format!("nameless-silent:{}:followed-by-{}", which, next),
                format!("#{} without a macro name on its line is not reported (errors: {:?})", which, errors),
                case_of(seq, &text),
            );
        }
    }
    if ctx.want_sample() && has_cond && seq.len() >= 4 {
        ctx.sample(json!({"sequence": shape(seq), "text": text}));
    }
}

fn max_depth(seq: &[Item]) -> usize {
    let mut d = 0usize;
    let mut m = 0;
    for i in seq {
        match i {
            Item::Ifdef(_) | Item::Ifndef(_) => {
                d += 1;
                m = m.max(d);
            }
            Item::Endif => d = d.saturating_sub(1),
            _ => {}
        }
    }
    m
}

fn tail_enabled(seq: &[Item]) -> bool {
    // enabledness of the text position at the very end
    let mut stack: Vec<(bool, bool, bool)> = Vec::new();
    let mut defined = [false; 2];
    for it in seq {
        let en = match stack.last() {
            None => true,
            Some(&(p, c, e)) => p && (c != e),
        };
        match *it {
            Item::Define(m) if en => defined[m as usize] = true,
            Item::Ifdef(m) => stack.push((en, defined[m as usize], false)),
            Item::Ifndef(m) => stack.push((en, !defined[m as usize], false)),
            Item::Else => {
                if let Some(t) = stack.last_mut() {
                    t.2 = true
                }
            }
            Item::Endif => {
                stack.pop();
            }
            _ => {}
        }
    }
    match stack.last() {
        None => true,
        Some(&(p, c, e)) => p && (c != e),
    }
}

/// ide level: declarations and diagnostics must not come out of disabled text.
fn ide_case(rng: &mut Rng, ctx: &mut Ctx) {
    // random well-nested structure, depth <= 4, with a class statement in every region
    let mut text = String::new();
    let mut expect_visible: Vec<String> = Vec::new();
    let mut k = 0usize;
    let mut defined: Vec<bool> = vec![false; 3];
    let names = ["MA", "_MB", "M_C_3"];
    // recursive generation with explicit stack of enabledness
    fn gen(rng: &mut Rng, depth: usize, enabled: bool, text: &mut String, vis: &mut Vec<String>, k: &mut usize, defined: &mut Vec<bool>, names: &[&str]) {
        let n = rng.range(1, 4);
        for _ in 0..n {
            match rng.below(if depth >= 4 { 3 } else { 5 }) {
                0 | 1 => {
                    *k += 1;
                    if enabled {
                        text.push_str(&format!("class V{} {{ int f = {}; }}\n", k, k));
                        vis.push(format!("V{}", k));
                    } else {
                        // would produce an outline entry and a "class not found" diagnostic if it leaked
                        text.push_str(&format!("class Hidden{} : Undefined{};\n\"unterminated [{{ ( \n", k, k));
                    }
                }
                2 => {
                    let m = rng.below(3);
                    text.push_str(&format!("#define {}\n", names[m]));
                    if enabled {
                        defined[m] = true;
                    }
                }
                _ => {
                    let m = rng.below(3);
                    let neg = rng.chance(1, 2);
                    text.push_str(&format!("{} {} // c\n", if neg { "#ifndef" } else { "#ifdef" }, names[m]));
                    let cond = defined[m] != neg;
                    gen(rng, depth + 1, enabled && cond, text, vis, k, defined, names);
                    if rng.chance(1, 2) {
                        text.push_str("#else\n");
                        gen(rng, depth + 1, enabled && !cond, text, vis, k, defined, names);
                    }
                    text.push_str("#endif\n");
                }
            }
        }
    }
    gen(rng, 0, true, &mut text, &mut expect_visible, &mut k, &mut defined, &names);
    ctx.eval();
    let w = ws::Workspace::single(&text);
    ctx.current_json(&w.to_json());
    let r = guard(|| {
        let l = ws::load(&w);
        let a = l.analysis();
        let syms: Vec<String> = a.document_symbol(l.root).unwrap_or_default().into_iter().map(|s| s.name.to_string()).collect();
        let diags: Vec<String> = a.diagnostics().into_iter().flat_map(|(_, v)| v.into_iter().map(|d| d.message)).collect();
        (syms, diags)
    });
    match r {
        Err(pi) => ctx.panic_violation("ide:", &pi, w.to_json()),
        Ok((syms, diags)) => {
            ctx.feature("ide_cases");
            if text.contains("Hidden") {
                ctx.nontrivial(fnv64(text.as_bytes()));
                ctx.feature("ide_with_disabled_decl");
            }
            if syms != expect_visible {
                let leaked = syms.iter().any(|s| s.starts_with("Hidden"));
                ctx.violation(
                    if leaked { "ide:declaration-from-disabled-text" } else { "ide:enabled-declarations-differ" },
                    format!("outline {:?}, expected {:?}", syms, expect_visible),
                    w.to_json(),
                );
            }
            if !diags.is_empty() {
                let leaked = diags.iter().any(|d| d.contains("Undefined") || d.contains("Hidden"));
                ctx.violation(
                    if leaked { "ide:diagnostic-from-disabled-text" } else { "ide:diagnostic-in-clean-conditional-program" },
                    format!("diagnostics {:?}", diags),
                    w.to_json(),
                );
            }
        }
    }
}

fn enumerate(prefix: &[Item], maxlen: usize, ctx: &mut Ctx) {
    // all sequences with the given prefix and total length prefix.len()..=maxlen
    fn rec(cur: &mut Vec<Item>, maxlen: usize, ctx: &mut Ctx) {
        check_seq(cur, ctx);
        if cur.len() == maxlen {
            return;
        }
        // prune: once ill-nested, every extension is ill-nested too
        if !refpp(cur).well_nested {
            return;
        }
        for it in ITEMS {
            cur.push(it);
            rec(cur, maxlen, ctx);
            cur.pop();
        }
    }
    let mut cur = prefix.to_vec();
    rec(&mut cur, maxlen, ctx);
}

impl Check for C15 {
    fn id(&self) -> &'static str {
        "C15"
    }
    fn units(&self, tier: Tier, _seed: u64) -> u64 {
        1 + 121 + tier.pick(16, 64)
    }
    fn run_unit(&self, unit: u64, ctx: &mut Ctx) {
        let maxlen = ctx.tier.pick(6, 8);
        if unit == 0 {
            check_seq(&[], ctx);
            for it in ITEMS {
                check_seq(&[it], ctx);
            }
            ctx.feature("exhaustive_units");
        } else if unit <= 121 {
            let u = (unit - 1) as usize;
            enumerate(&[ITEMS[u / 11], ITEMS[u % 11]], maxlen, ctx);
            ctx.feature("exhaustive_units");
        } else {
            let mut rng = Rng::derive(ctx.seed, 0x15, unit);
            for _ in 0..ctx.tier.pick(150, 600) {
                ide_case(&mut rng, ctx);
            }
        }
    }
    fn replay(&self, case: &Value, ctx: &mut Ctx) {
        if let Some(items) = case["items"].as_array() {
            let seq: Vec<Item> = items
                .iter()
                .filter_map(|s| {
                    let s = s.as_str()?;
                    Some(match s {
                        "Define(0)" => Item::Define(0),
                        "Define(1)" => Item::Define(1),
                        "Ifdef(0)" => Item::Ifdef(0),
                        "Ifdef(1)" => Item::Ifdef(1),
                        "Ifndef(0)" => Item::Ifndef(0),
                        "Ifndef(1)" => Item::Ifndef(1),
                        "Else" => Item::Else,
                        "Endif" => Item::Endif,
                        "Marker" => Item::Marker,
                        "IfdefNoName" => Item::IfdefNoName,
                        "DefineNoName" => Item::DefineNoName,
                        _ => return None,
                    })
                })
                .collect();
            check_seq(&seq, ctx);
        } else if case["kind"] == "workspace" {
            // ide-level case: re-run the leak oracle on the recorded text
            if let Some(w) = ws::Workspace::from_json(case) {
                let l = ws::load(&w);
                let a = l.analysis();
                ctx.eval();
                let syms: Vec<String> = a.document_symbol(l.root).unwrap_or_default().into_iter().map(|s| s.name.to_string()).collect();
                if syms.iter().any(|s| s.starts_with("Hidden")) {
                    ctx.violation("ide:declaration-from-disabled-text", format!("outline {:?}", syms), case.clone());
                }
                let diags: Vec<String> = a.diagnostics().into_iter().flat_map(|(_, v)| v.into_iter().map(|d| d.message)).collect();
                if !diags.is_empty() {
                    ctx.violation("ide:diagnostic-from-disabled-text", format!("diagnostics {:?}", diags), case.clone());
                }
            }
        }
    }
    fn rule(&self) -> String {
        "EXHAUSTIVE: every sequence of length <= 6 (thorough: <= 8) over {#define A, #define B, #ifdef A, #ifdef B, #ifndef A, #ifndef B, #else, #endif, marker identifier, #ifdef without name, #define without name}, one item per line, pruned at the first stray #else/#endif (outside the statement). Well-nested, fully named, closed sequences: the Id tokens of syntax::parse must equal the markers selected by the reference evaluator refpp and no Error token may appear. Closed-but-for-EOF sequences: some syntax error must mention the missing #endif. Sequences with exactly one nameless directive in enabled text: some error must mention the macro name. Every sequence with a disabled marker (in front of the first nameless directive) is evaluated a second time with `!bogus \"open` - an unknown operator and an unterminated string - appended to each disabled marker's line: the same three oracles apply, so lexical complaints about disabled text may neither surface nor displace the preprocessor's own report. Fully named sequences with a conditional are evaluated twice more: with directive words inside a line comment, a block comment and a string literal on every marker line (they are text, not directives - in enabled and in disabled regions), and with a comment glued to every #else / #endif (`#else// c`, `#endif/* c */`); those with a marker once more with a directive word in another letter case next to every marker (`#Else`, `#ENDIF`, `#Ifdef AAA`, `#DEFINE B` / `#Define AAA` - TableGen's directives are the five lower-case words only, so these are a paste operator and identifiers: they may neither end, flip nor open a region nor define a macro; only the marker identifiers are compared in this rendering). SAMPLED (ide level): random nestings up to depth 4 with `class V_k {..}` in enabled and `class Hidden_k : Undefined_k; \"unterminated [{ (` in disabled regions: the outline must be exactly the V_k and there must be no diagnostics. non-trivial = sequence contains a conditional / workspace contains disabled declarations; distinct by text digest".into()
    }
    fn floors(&self, tier: Tier) -> Vec<(&'static str, u64)> {
        vec![("exhaustive_units", 122), ("well_nested", tier.pick(10_000, 500_000)), ("unterminated", tier.pick(100_000, 10_000_000)), ("nameless", tier.pick(100_000, 10_000_000)), ("has_disabled_marker", tier.pick(1500, 100_000)), ("lexically_bad_disabled_text", tier.pick(10_000, 500_000)), ("directive_words_in_comments_and_strings", tier.pick(10_000, 500_000)), ("comment_glued_to_directive", tier.pick(10_000, 500_000)), ("miscased_directive_words", tier.pick(10_000, 500_000)), ("ide_with_disabled_decl", 1000)]
    }
    fn exhaustive(&self, tier: Tier) -> Option<String> {
        Some(format!("all directive/marker sequences of length <= {} over the 11-item alphabet (pruned only where a stray #else/#endif already makes every extension ill-nested)", tier.pick(6, 8)))
    }
    fn assumptions(&self) -> Vec<String> {
        vec![
            "refpp (c15.rs) is the reference semantics: a macro is defined only by an earlier enabled #define; #else flips the innermost open conditional".into(),
            "directive words are case-sensitive (LLVM TGLexer::prepIsDirective compares with the lower-case spellings; llvm-tblgen 14 takes `\"a\"#Endif` as a paste and does not end a disabled region at `#Else`)".into(),
            "a directive's macro name must be on the directive's own line (LLVM TGLexer::prepLexMacroName skips horizontal whitespace only)".into(),
            "an error is recognised as reporting the unterminated conditional if its message mentions endif/EOF/#if; as reporting a nameless directive if it mentions 'macro name'".into(),
        ]
    }
    fn technique(&self) -> &'static str {
        "differential monitor against a reference conditional evaluator, exhaustive directive sequences + ide-level leak monitor"
    }
}
