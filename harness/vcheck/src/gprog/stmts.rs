//! G-prog statements: classes, defs, defvar, foreach, if, let, defset, multiclass/defm, assert, includes.
use super::core::*;
use super::model::*;
use super::values::incompatible_literal;

const FIELD_TYPES: [fn() -> Ty; 10] = [
    || Ty::Bits(1),
    || Ty::Bits(8),
    || Ty::Int,
    || Ty::Int,
    || Ty::Str,
    || Ty::Bit,
    || Ty::Bits(4),
    || Ty::List(Box::new(Ty::Int)),
    || Ty::List(Box::new(Ty::Str)),
    || Ty::Dag,
];

impl<'r> G<'r> {
    fn random_type(&mut self, allow_class: bool) -> Ty {
        if allow_class && !self.classes.is_empty() && self.rng.chance(1, 6) {
            let c = &self.classes[self.rng.below(self.classes.len())];
            return Ty::Class(c.name.clone());
        }
        if self.rng.chance(1, 12) {
            return Ty::Code;
        }
        FIELD_TYPES[self.rng.below(FIELD_TYPES.len())]()
    }

    /// writes a type; class names inside it are uses
    fn put_type(&mut self, ty: &Ty) {
        match ty {
            Ty::Class(c) => match self.class(c).map(|ci| ci.decl) {
                Some(d) => {
                    let c = c.clone();
                    self.use_here(&c, d, "type");
                    let s = self.p.uses.last().unwrap().range;
                    let fresh = format!("UndefinedType_{}", self.p.fault_sites.len());
                    let l = fresh.len();
                    self.p.fault_sites.push(FaultSite { file: self.cur, span: s, replacement: fresh, class: "undefined-class", expect: (s.0, s.0 + l) });
                }
                None => self.put(c),
            },
            Ty::List(el) => {
                self.put("list<");
                let el = (**el).clone();
                self.put_type(&el);
                self.put(">");
            }
            t => {
                let r = t.render();
                self.put(&r);
            }
        }
    }

    fn fold_begin(&self) -> usize {
        self.pos()
    }
    fn fold_end(&mut self, start: usize, kind: &'static str) {
        let e = self.pos();
        self.p.folds.push(Fold { file: self.cur, range: (start, e), kind });
    }
    fn outline_push(&mut self, node: OutlineNode) {
        match self.outline_stack.last_mut() {
            Some(children) => children.push(node),
            None => self.p.outline[self.cur].push(node),
        }
    }
    /// end of statement: newline, sometimes preceded by a trailing `// remark` (which is NOT a doc of the next line)
    fn end_stmt(&mut self) {
        if self.cfg.docs && self.no_trailing == 0 && self.rng.chance(1, 10) {
            // with and without a blank before the slashes
            if self.rng.chance(1, 3) {
                self.put("// trailing remark");
            } else {
                self.put(" // trailing remark");
            }
            self.p.features.push("doc:trailing-comment-on-previous-line");
        }
        self.nl();
    }

    // ---------------------------------------------------------------- template arguments
    fn template_args(&mut self, owner: &str, n: usize) -> Vec<TArg> {
        let mut out: Vec<TArg> = Vec::new();
        if n == 0 {
            return out;
        }
        self.put("<");
        // defaults usually trail, but llvm-tblgen also accepts a defaulted argument before a required one
        let first_default = self.rng.range(0, n);
        let scattered = self.rng.chance(1, 3);
        for i in 0..n {
            if i > 0 {
                self.put(", ");
            }
            let ty = self.random_type(false);
            let ty = if ty == Ty::Code || ty == Ty::Dag { Ty::Int } else { ty };
            self.put(&ty.render());
            self.put(" ");
            let name = self.shadow_name("p", 0);
            if self.shadowed_globals.contains(&name) {
                // from here to the end of the class statement the global of that name is not to be used where the
                // template argument itself is out of sight (defaults, record-body defvar values)
                self.masked.push(name.clone());
            }
            let d = self.decl_here(&name, DeclKind::TemplateArg, vec![ty.render(), name.clone()], None, false);
            let has_default = if scattered { self.rng.chance(1, 2) } else { i >= first_default };
            if has_default {
                self.put(" = ");
                // earlier template arguments are in scope in the default
                // no other template argument is read in a default: llvm-tblgen 14 rejects the class reference
                // ("Value not specified") whenever such a default is not fully resolved at that point
                let saved = self.rec.take();
                self.rec = Some(RecCtx { targs: vec![], fields: vec![], is_class: true });
                let a = self.pos();
                self.value(&ty, 1, "template-arg-default");
                let b = self.pos();
                self.rec = saved;
                if let Some(bad) = incompatible_literal(&ty) {
                    let _ = (a, b, bad); // defaults are checked lazily by some tools: not used as a fault site
                }
            }
            let _ = owner;
            out.push(TArg { name, ty, has_default, decl: d });
        }
        self.put(">");
        out
    }

    // ---------------------------------------------------------------- record bodies
    /// parent class list `: A<..>, B`; returns (ancestors, inherited fields)
    fn parent_list(&mut self, max: usize, own_targs: &[TArg]) -> (Vec<String>, Vec<FieldInfo>) {
        let mut anc: Vec<String> = Vec::new();
        let mut fields: Vec<FieldInfo> = Vec::new();
        if self.classes.is_empty() || max == 0 {
            return (anc, fields);
        }
        let n = self.rng.below(max + 1);
        if n == 0 {
            return (anc, fields);
        }
        let saved = self.rec.take();
        self.rec = Some(RecCtx { targs: own_targs.to_vec(), fields: vec![], is_class: true });
        let mut chosen: Vec<String> = Vec::new();
        for i in 0..n {
            // distinct parents whose field sets do not clash (names are unique, diamonds are avoided)
            let cands: Vec<ClassInfo> = self
                .classes
                .iter()
                .filter(|c| !chosen.contains(&c.name) && !c.ancestors.iter().any(|a| anc.contains(a)))
                .cloned()
                .collect();
            if cands.is_empty() {
                break;
            }
            let ci = cands[self.rng.below(cands.len())].clone();
            self.put(if i == 0 { " : " } else { ", " });
            self.class_ref(&ci, "parent-class", 1, false);
            chosen.push(ci.name.clone());
            for a in &ci.ancestors {
                if !anc.contains(a) {
                    anc.push(a.clone());
                }
            }
            fields.extend(ci.fields.iter().cloned());
            // the fields inherited so far are in scope for the template arguments of the parents that follow
            if let Some(r) = self.rec.as_mut() {
                r.fields.extend(ci.fields.iter().cloned());
            }
            if i > 0 {
                self.p.features.push("parents:later-parent-after-inherited-fields");
            }
        }
        self.rec = saved;
        (anc, fields)
    }

    /// `;` or `{ items }`; returns outline children for declared / overridden fields
    fn body(&mut self, allow_fields: bool) -> Vec<OutlineNode> {
        let mut children = Vec::new();
        let n = self.rng.below(5);
        if n == 0 && self.rng.chance(1, 2) {
            self.put(";");
            return children;
        }
        self.put(" {");
        self.indent += 1;
        self.ctx_stack.push("record");
        self.scopes.push(vec![]);
        let mut declared_here: Vec<String> = Vec::new();
        for _ in 0..n {
            self.nl();
            match self.rng.below(10) {
                0..=4 if allow_fields => {
                    // field definition
                    let (doc, checked) = self.maybe_docs();
                    if self.rng.chance(1, 8) {
                        self.put("field ");
                    }
                    // now and then the body declares again, with the same type, a field it inherits (a new field of
                    // this record: one more outline child; from here on the name means the new declaration)
                    let inherited: Vec<FieldInfo> =
                        self.rec.as_ref().map(|r| r.fields.iter().filter(|f| !f.overridden && !declared_here.contains(&f.name) && f.ty != Ty::Code).cloned().collect()).unwrap_or_default();
                    let redeclare = if !inherited.is_empty() && self.rng.chance(1, 8) { Some(inherited[self.rng.below(inherited.len())].clone()) } else { None };
                    let ty = match &redeclare {
                        Some(f) => f.ty.clone(),
                        None => self.random_type(true),
                    };
                    self.put_type(&ty);
                    self.put(" ");
                    let name = match &redeclare {
                        Some(f) => {
                            if let Some(r) = self.rec.as_mut() {
                                for old in r.fields.iter_mut().filter(|o| o.name == f.name) {
                                    old.overridden = true;
                                }
                            }
                            self.p.features.push("field:redeclares-inherited-field");
                            f.name.clone()
                        }
                        None if self.rec.as_ref().map(|r| r.is_class).unwrap_or(false) => self.shadow_name("f", 1),
                        None => self.fresh("f"),
                    };
                    if self.shadowed_globals.contains(&name) && !self.masked.contains(&name) {
                        // the field's own initialiser would already mean the field, not the global
                        self.masked.push(name.clone());
                    }
                    let owner = self.rec.as_ref().map(|_| String::new()).unwrap_or_default();
                    let _ = owner;
                    let d = self.decl_here(&name, DeclKind::Field, vec![ty.render(), name.clone()], doc, checked);
                    let r = self.p.decls[d].range;
                    children.push(OutlineNode { name: name.clone(), kind: "Field", range: r, children: vec![] });
                    // (a re-declaration keeps a value: what was computed from the inherited field stays resolvable)
                    let initialised = self.rng.chance(4, 5) || redeclare.is_some();
                    if initialised {
                        self.put(" = ");
                        let a = self.pos();
                        if redeclare.is_some() {
                            // no field is read here: another field may already be computed from the inherited one
                            self.hidden_field = Some(name.clone());
                        }
                        self.value(&ty, 0, "field-init");
                        self.hidden_field = None;
                        let b = self.pos();
                        if let Some(bad) = incompatible_literal(&ty) {
                            self.p.fault_sites.push(FaultSite { file: self.cur, span: (a, b), replacement: bad.to_string(), class: "type-incompatible-initialiser", expect: (a, a + bad.len()) });
                        }
                    }
                    self.put(";");
                    declared_here.push(name.clone());
                    if let Some(r) = self.rec.as_mut() {
                        r.fields.push(FieldInfo { name, ty, decl: d, overridden: false, usable: initialised });
                    }
                }
                5 | 6 => {
                    // override of an inherited field that was not declared in this body
                    let cands: Vec<FieldInfo> =
                        self.rec.as_ref().map(|r| r.fields.iter().filter(|f| !f.overridden && !declared_here.contains(&f.name)).cloned().collect()).unwrap_or_default();
                    if cands.is_empty() {
                        self.put("defvar ");
                        self.local_defvar_rest();
                        continue;
                    }
                    let f = cands[self.rng.below(cands.len())].clone();
                    self.put("let ");
                    let s = self.pos();
                    self.put(&f.name);
                    let e = self.pos();
                    self.p.uses.push(Use { file: self.cur, range: (s, e), decl: f.decl, position: "field-let-name", optional: true });
                    self.p.hints.push(Hint { file: self.cur, pos: e, label: format!(":{}", f.ty.render()), kind: "field-let" });
                    children.push(OutlineNode { name: f.name.clone(), kind: "Field", range: (s, e), children: vec![] });
                    // a bits field may be overridden in part: `let f{3-0} = 5;` (still an override of f: one outline child,
                    // the declared type of f as hint; heirs may override f again)
                    if let Ty::Bits(n) = f.ty {
                        if n >= 2 && self.rng.chance(1, 2) {
                            let hi = 1 + self.rng.below(n as usize - 1);
                            let lo = self.rng.below(hi + 1);
                            let width = hi - lo + 1;
                            let form = self.rng.below(3);
                            if lo == hi {
                                self.put(&format!("{{{}}}", hi));
                            } else if form == 0 {
                                self.put(&format!("{{{}-{}}}", hi, lo));
                            } else if form == 1 {
                                self.put(&format!("{{{}...{}}}", hi, lo));
                            } else {
                                self.put(&format!("{{{}, {}}}", hi, lo));
                            }
                            let width = if form == 2 && lo != hi { 2 } else { width };
                            let max = (1usize << width.min(16)) - 1;
                            let v = self.rng.below(max + 1);
                            self.put(&format!(" = {};", v));
                            if let Some(r) = self.rec.as_mut() {
                                for x in r.fields.iter_mut() {
                                    if x.name == f.name {
                                        x.usable = false; // not read any more (which declaration a later use means is left open)
                                    }
                                }
                            }
                            declared_here.push(f.name.clone());
                            self.p.features.push("body:field-let-bit-range");
                            continue;
                        }
                    }
                    self.put(" = ");
                    let a = self.pos();
                    self.hidden_field = Some(f.name.clone());
                    self.value(&f.ty, 0, "let-value");
                    self.hidden_field = None;
                    let b = self.pos();
                    if let Some(bad) = incompatible_literal(&f.ty) {
                        self.p.fault_sites.push(FaultSite { file: self.cur, span: (a, b), replacement: bad.to_string(), class: "type-incompatible-let", expect: (a, a + bad.len()) });
                    }
                    self.put(";");
                    if let Some(r) = self.rec.as_mut() {
                        for x in r.fields.iter_mut() {
                            if x.name == f.name {
                                x.overridden = true;
                            }
                        }
                    }
                    self.p.features.push("body:field-let");
                }
                7 => {
                    self.put("defvar ");
                    self.local_defvar_rest();
                }
                8 => {
                    self.put("assert ");
                    self.true_condition("assert-operand");
                    self.put(", \"always holds\";");
                    self.p.features.push("body:assert");
                }
                _ => {
                    if allow_fields {
                        let ty = Ty::Int;
                        self.put("int ");
                        let name = self.fresh("g");
                        let d = self.decl_here(&name, DeclKind::Field, vec![ty.render(), name.clone()], None, true);
                        let r = self.p.decls[d].range;
                        children.push(OutlineNode { name: name.clone(), kind: "Field", range: r, children: vec![] });
                        self.put(";");
                        declared_here.push(name.clone());
                        if let Some(r) = self.rec.as_mut() {
                            r.fields.push(FieldInfo { name, ty, decl: d, overridden: false, usable: false });
                        }
                    } else {
                        self.put("defvar ");
                        self.local_defvar_rest();
                    }
                }
            }
        }
        self.scopes.pop();
        self.ctx_stack.pop();
        self.indent -= 1;
        self.nl();
        self.put("}");
        children
    }

    /// a condition that is true whatever the values are (asserts are evaluated by llvm-tblgen)
    fn true_condition(&mut self, position: &'static str) {
        self.put("!ge(!size(");
        self.value(&Ty::Str, 2, position);
        self.put("), 0)");
    }

    /// after `defvar `: name = value ; in the innermost local scope
    fn local_defvar_rest(&mut self) {
        let ty = [Ty::Int, Ty::Str, Ty::List(Box::new(Ty::Int))][self.rng.below(3)].clone();
        // sometimes shadow an outer defvar of the same kind (innermost wins)
        let outer: Vec<String> = self.scopes.iter().rev().skip(1).flat_map(|s| s.iter().map(|v| v.name.clone())).chain(self.gvars.iter().map(|v| v.name.clone())).collect();
        let shadow = !outer.is_empty() && self.rng.chance(1, 5) && !self.scopes.is_empty();
        let name = if shadow {
            let n = outer[self.rng.below(outer.len())].clone();
            // (never a name that a field / template argument also reuses: llvm-tblgen 14 looks fields and template
            // arguments up before block variables, the statement says the innermost declaration wins)
            if self.scopes.last().map(|s| s.iter().any(|v| v.name == n)).unwrap_or(false) || self.loop_vars.contains(&n) || self.shadowed_globals.contains(&n) {
                self.fresh("v")
            } else {
                self.p.features.push("scope:shadowing-defvar");
                self.shadowed_globals.insert(n.clone());
                n
            }
        } else {
            self.fresh("v")
        };
        // the value is generated BEFORE the name becomes visible (a defvar does not see itself)
        let name_pos_file = self.cur;
        let s = self.pos();
        self.put(&name);
        let e = self.pos();
        self.put(" = ");
        // llvm-tblgen 14 parses a record-body defvar's value without the current record: fields and template
        // arguments are not visible there
        let saved_rec = self.rec.take();
        let n_masked = self.masked.len();
        if let Some(r) = &saved_rec {
            // ... so a global that shares its name with one of them would be what llvm-tblgen finds, while "fields
            // inside their record" says otherwise: such names are not used here at all
            let names: Vec<String> = r.fields.iter().map(|f| f.name.clone()).chain(r.targs.iter().map(|a| a.name.clone())).collect();
            self.masked.extend(names);
        }
        self.value(&ty, 0, "defvar-value");
        self.masked.truncate(n_masked);
        self.rec = saved_rec;
        self.put(";");
        let context = self.context();
        self.p.decls.push(Decl { file: name_pos_file, range: (s, e), kind: DeclKind::Defvar, name: name.clone(), sig_parts: vec![name.clone()], doc: None, doc_checked: false, context });
        let d = self.p.decls.len() - 1;
        match self.scopes.last_mut() {
            Some(sc) => sc.push(VarInfo { name, ty, decl: d }),
            None => self.gvars.push(VarInfo { name, ty, decl: d }),
        }
    }

    // ---------------------------------------------------------------- statements
    pub fn class_stmt(&mut self) {
        let name = self.fresh("C");
        if self.cfg.forward_decls && self.rng.chance(1, 5) {
            // the forward-declaration idiom: `class C;` directly in front of the definition (one more class
            // statement: an outline entry without children and a folding range of its own)
            let s = self.fold_begin();
            self.put("class ");
            let r0 = self.pos();
            self.put(&name);
            let r1 = self.pos();
            self.put(";");
            self.fold_end(s, "class");
            self.outline_push(OutlineNode { name: name.clone(), kind: "Class", range: (r0, r1), children: vec![] });
            self.p.features.push("class:forward-declared");
            self.nl();
        }
        let (doc, checked) = self.maybe_docs();
        let start = self.fold_begin();
        self.put("class ");
        let nt = self.rng.below(4);
        let d = self.decl_here(&name, DeclKind::Class, vec!["class".into(), name.clone()], doc, checked);
        let range = self.p.decls[d].range;
        let targs = self.template_args(&name, nt);
        for a in &targs {
            self.p.decls[d].sig_parts.push(format!("{} {}", a.ty.render(), a.name));
        }
        let (mut anc, inherited) = self.parent_list(2, &targs);
        anc.push(name.clone());
        self.rec = Some(RecCtx { targs: targs.clone(), fields: inherited, is_class: true });
        let field_children = self.body(true);
        let rec = self.rec.take().unwrap();
        self.fold_end(start, "class");
        let mut children: Vec<OutlineNode> =
            targs.iter().map(|a| OutlineNode { name: a.name.clone(), kind: "TemplateArgument", range: self.p.decls[a.decl].range, children: vec![] }).collect();
        children.extend(field_children);
        self.outline_push(OutlineNode { name: name.clone(), kind: "Class", range, children });
        self.classes.push(ClassInfo { name, decl: d, targs, fields: rec.fields, ancestors: anc });
        self.masked.clear();
        self.p.features.push("stmt:class");
        self.end_stmt();
    }

    /// def statement. `name_mode`: 0 plain name, 1 anonymous, 2 pasted with loop variable
    pub fn def_stmt(&mut self, force_class: Option<&ClassInfo>) {
        let (doc, checked) = if self.in_loop == 0 { self.maybe_docs() } else { (None, false) };
        let start = self.fold_begin();
        self.put("def");
        let mut name = String::new();
        let mut decl = None;
        let mode = if self.in_loop > 0 {
            if self.cfg.paste_names && !self.loop_vars.is_empty() && self.dup_loops == 0 && self.rng.chance(2, 3) {
                2
            } else {
                1
            }
        } else if self.rng.chance(1, 10) {
            1
        } else {
            0
        };
        match mode {
            0 => {
                self.put(" ");
                name = if self.in_multiclass { format!("_{}", self.fresh("m")) } else { self.fresh("d") };
                let d = self.decl_here(&name, DeclKind::Def, vec!["def".into(), name.clone()], doc, checked);
                decl = Some(d);
            }
            2 if self.cfg.paste_head_var && self.rng.chance(1, 2) => {
                // def <loopvar> # "_sfxN" : the head of the pasted name is a variable
                self.put(" ");
                let lv = self.loop_vars.last().unwrap().clone();
                self.put(&lv);
                let sfx = self.fresh("sfx");
                self.put(&format!(" # \"_{}\"", sfx));
                self.p.features.push("def:pasted-name-headed-by-variable");
            }
            2 => {
                self.put(" ");
                name = format!("{}_", self.fresh("D"));
                // documented behaviour: the symbol is named after the leading identifier of the pasted name
                let d = self.decl_here(&name, DeclKind::Def, vec!["def".into(), name.clone()], None, false);
                decl = Some(d);
                for lv in self.loop_vars.clone() {
                    self.put(" # ");
                    match self.lookup_var(&lv) {
                        Some(ld) => self.use_here(&lv, ld, "def-name-paste"),
                        None => self.put(&lv),
                    }
                }
                self.p.features.push("def:pasted-name");
            }
            _ => {
                self.p.features.push("def:anonymous");
            }
        }
        let (anc, inherited) = match force_class {
            Some(ci) => {
                self.put(" : ");
                let ci = ci.clone();
                self.class_ref(&ci, "parent-class", 1, false);
                (ci.ancestors.clone(), ci.fields.clone())
            }
            None => self.parent_list(2, &[]),
        };
        self.rec = Some(RecCtx { targs: vec![], fields: inherited, is_class: false });
        let field_children = self.body(true);
        let rec = self.rec.take().unwrap();
        self.fold_end(start, "def");
        if let Some(d) = decl {
            let range = self.p.decls[d].range;
            self.outline_push(OutlineNode { name: name.clone(), kind: "Def", range, children: field_children });
            let nameable = mode == 0 && !self.in_multiclass && self.in_branch == 0 && self.in_loop == 0;
            self.defs.push(DefInfo { name, decl: d, ancestors: anc, fields: rec.fields, nameable });
        }
        self.p.features.push("stmt:def");
        self.end_stmt();
    }

    pub fn lookup_var(&self, name: &str) -> Option<usize> {
        self.visible_values().into_iter().find(|(n, _, _)| n == name).map(|(_, _, d)| d)
    }

    pub fn defvar_stmt(&mut self) {
        self.put("defvar ");
        self.local_defvar_rest();
        self.p.features.push("stmt:defvar");
        self.end_stmt();
    }

    fn block<F: FnMut(&mut Self)>(&mut self, ctx: &'static str, mut inner: F) {
        // `{ statements }` or a single statement
        let braces = self.rng.chance(2, 3) || self.force_braces;
        self.force_braces = false;
        self.no_trailing += 1;
        self.ctx_stack.push(ctx);
        self.scopes.push(vec![]);
        if braces {
            let saved_braceless = std::mem::take(&mut self.braceless);
            self.put("{");
            self.indent += 1;
            let n = self.rng.range(1, 3);
            for _ in 0..n {
                self.nl();
                inner(self);
                // statements end with a newline+indent; trim it so that the layout stays tidy
                self.trim_trailing_ws();
            }
            self.indent -= 1;
            self.nl();
            self.put("}");
            self.braceless = saved_braceless;
        } else {
            self.braceless += 1;
            inner(self);
            self.braceless -= 1;
            self.trim_trailing_ws();
        }
        self.scopes.pop();
        self.ctx_stack.pop();
        self.no_trailing -= 1;
    }
    fn trim_trailing_ws(&mut self) {
        let t = &mut self.files[self.cur].text;
        while t.ends_with(' ') || t.ends_with('\n') || t.ends_with('\r') {
            t.pop();
        }
    }

    fn inner_statement(&mut self, depth: u32) {
        if let Some(ci) = self.defset_class.clone() {
            // everything declared inside a defset must be a def of the element class
            self.def_stmt(Some(&ci));
            return;
        }
        match self.rng.below(if depth >= 2 { 4 } else { 8 }) {
            0 | 1 | 2 => {
                let ci = if !self.classes.is_empty() && self.rng.chance(3, 4) { Some(self.classes[self.rng.below(self.classes.len())].clone()) } else { None };
                self.def_stmt(ci.as_ref());
            }
            3 => {
                if self.in_multiclass {
                    let ci = self.classes.last().cloned();
                    self.def_stmt(ci.as_ref());
                } else {
                    self.defvar_stmt();
                }
            }
            4 => self.foreach_stmt(depth + 1),
            5 => self.if_stmt(depth + 1),
            6 => self.let_stmt(depth + 1),
            _ => {
                if self.in_multiclass || self.mcs.is_empty() {
                    self.assert_stmt();
                } else {
                    self.defm_stmt();
                }
            }
        }
    }

    pub fn foreach_stmt(&mut self, depth: u32) {
        let start = self.fold_begin();
        self.put("foreach ");
        let var = self.fresh("i");
        let s = self.pos();
        self.put(&var);
        let e = self.pos();
        self.put(" = ");
        let mut named_range = false;
        let ty = match self.rng.below(5) {
            0 => {
                self.put("0...2");
                Ty::Int
            }
            1 => {
                self.put("{1, 3}");
                Ty::Int
            }
            2 => {
                self.put("[\"a\", \"b\"]");
                Ty::Str
            }
            3 => {
                let names = self.names_of_type(&Ty::List(Box::new(Ty::Int)));
                // only globals / outer loop-free names: the list must be known when the loop is unrolled
                let names: Vec<_> = names.into_iter().filter(|(n, _)| self.gvars.iter().any(|g| &g.name == n) || self.scopes.iter().any(|s| s.iter().any(|v| &v.name == n))).collect();
                if names.is_empty() || self.in_multiclass || self.rec.is_some() {
                    self.put("[7]");
                } else {
                    let (n, d) = names[self.rng.below(names.len())].clone();
                    self.use_here(&n, d, "foreach-range");
                    named_range = true; // the list may hold equal elements: pasted def names would collide
                }
                Ty::Int
            }
            _ => {
                self.put("[");
                let (a, b) = (self.rng.below(9), 10 + self.rng.below(9));
                self.put(&format!("{}, {}", a, b));
                self.put("]");
                Ty::Int
            }
        };
        let context = self.context();
        self.p.decls.push(Decl { file: self.cur, range: (s, e), kind: DeclKind::ForeachVar, name: var.clone(), sig_parts: vec![var.clone()], doc: None, doc_checked: false, context });
        let d = self.p.decls.len() - 1;
        self.put(" in ");
        self.in_loop += 1;
        if named_range {
            self.dup_loops += 1;
        }
        self.loop_vars.push(var.clone());
        // the iterator lives in a scope of its own around the body
        self.scopes.push(vec![VarInfo { name: var.clone(), ty, decl: d }]);
        self.block("foreach", |g| g.inner_statement(depth));
        self.scopes.pop();
        self.loop_vars.pop();
        if named_range {
            self.dup_loops -= 1;
        }
        self.in_loop -= 1;
        self.fold_end(start, "foreach");
        self.p.features.push("stmt:foreach");
        self.end_stmt();
    }

    pub fn if_stmt(&mut self, depth: u32) {
        let start = self.fold_begin();
        self.put("if ");
        let untyped_condition = self.rng.chance(1, 5);
        if untyped_condition {
            // a condition whose type has to come from its operands
            self.put("!cond(true: ");
            self.p.features.push("stmt:if-untyped-condition");
        }
        // condition over things known at top level
        self.put("!lt(");
        let ints: Vec<(String, usize)> = self
            .names_of_type(&Ty::Int)
            .into_iter()
            .filter(|(n, _)| self.gvars.iter().any(|g| &g.name == n) || self.scopes.iter().any(|s| s.iter().any(|v| &v.name == n)) || self.mc_targs.iter().any(|a| &a.name == n))
            .collect();
        if !ints.is_empty() && self.rec.is_none() && self.rng.chance(2, 3) {
            let (n, d) = ints[self.rng.below(ints.len())].clone();
            self.use_here(&n, d, "if-condition");
        } else {
            self.put("1");
        }
        self.put(if untyped_condition { ", 5)) then " } else { ", 5) then " });
        self.in_branch += 1;
        let has_else = self.rng.chance(1, 2);
        // with an else the then-branch is braced: `if a then if b then X else Y` would hand the else to the inner if
        if has_else {
            self.force_braces = true;
        }
        self.block("if", |g| g.inner_statement(depth));
        if has_else {
            self.put(" else ");
            self.block("if", |g| g.inner_statement(depth));
            self.p.features.push("stmt:if-else");
        }
        self.in_branch -= 1;
        self.fold_end(start, "if");
        self.p.features.push("stmt:if");
        self.end_stmt();
    }

    pub fn let_stmt(&mut self, depth: u32) {
        // let F = v in def X : C;   where C (or an ancestor) has field F
        let mut cands: Vec<ClassInfo> = self.classes.iter().filter(|c| c.fields.iter().any(|f| !f.overridden)).cloned().collect();
        if let Some(dc) = self.defset_class.clone() {
            // inside a defset every def is of the element class
            cands.retain(|c| c.name == dc.name);
            if cands.is_empty() {
                self.def_stmt(Some(&dc));
                return;
            }
        }
        if cands.is_empty() {
            self.assert_stmt();
            return;
        }
        let ci = cands[self.rng.below(cands.len())].clone();
        let fs: Vec<FieldInfo> = ci.fields.iter().filter(|f| !f.overridden).cloned().collect();
        let f = fs[self.rng.below(fs.len())].clone();
        let start = self.fold_begin();
        self.put("let ");
        let s = self.pos();
        self.put(&f.name);
        let e = self.pos();
        self.p.let_item_names.push((self.cur, (s, e)));
        self.put(" = ");
        self.value(&f.ty, 1, "toplevel-let-value");
        self.put(" in ");
        let ci2 = ci.clone();
        let _ = depth;
        self.block("let", move |g| {
            if g.rng.chance(1, 4) && !g.in_multiclass && g.defset_class.is_none() {
                g.defvar_stmt();
            } else {
                g.def_stmt(Some(&ci2));
            }
        });
        self.fold_end(start, "let");
        self.p.features.push("stmt:let");
        self.end_stmt();
    }

    pub fn assert_stmt(&mut self) {
        self.put("assert ");
        self.true_condition("assert-operand");
        self.put(", ");
        self.value(&Ty::Str, 2, "assert-operand");
        self.put(";");
        self.p.features.push("stmt:assert");
        self.end_stmt();
    }

    pub fn defset_stmt(&mut self) {
        if self.classes.is_empty() {
            self.defvar_stmt();
            return;
        }
        let ci = self.classes[self.rng.below(self.classes.len())].clone();
        let (doc, checked) = self.maybe_docs();
        let start = self.fold_begin();
        self.put("defset list<");
        self.use_here(&ci.name, ci.decl, "defset-type");
        self.put("> ");
        let name = self.fresh("S");
        let d = self.decl_here(&name, DeclKind::Defset, vec![name.clone(), format!("list<{}>", ci.name)], doc, checked);
        let range = self.p.decls[d].range;
        self.put(" = {");
        self.indent += 1;
        self.ctx_stack.push("defset");
        self.outline_stack.push(vec![]);
        self.defset_class = Some(ci.clone());
        let n = self.rng.range(1, 3);
        for _ in 0..n {
            self.nl();
            // defs directly in the defset, and under foreach / if / let inside it (all are the defset's children)
            match self.rng.below(8) {
                0 | 1 => self.foreach_stmt(2),
                2 => {
                    self.if_stmt(2);
                    self.p.features.push("defset:def-under-if");
                }
                3 => {
                    self.let_stmt(2);
                    self.p.features.push("defset:def-under-let");
                }
                _ => self.def_stmt(Some(&ci)),
            }
            self.trim_trailing_ws();
        }
        self.defset_class = None;
        let children = self.outline_stack.pop().unwrap();
        self.ctx_stack.pop();
        self.indent -= 1;
        self.nl();
        self.put("}");
        self.fold_end(start, "defset");
        self.outline_push(OutlineNode { name: name.clone(), kind: "Defset", range, children });
        self.defsets.push((name.clone(), ci.name.clone(), d));
        // usable afterwards as a list<C> value
        self.gvars.push(VarInfo { name, ty: Ty::List(Box::new(Ty::Class(ci.name.clone()))), decl: d });
        self.p.features.push("stmt:defset");
        self.end_stmt();
    }

    pub fn multiclass_stmt(&mut self) {
        let (doc, checked) = self.maybe_docs();
        let start = self.fold_begin();
        self.put("multiclass ");
        let name = self.fresh("M");
        let d = self.decl_here(&name, DeclKind::Multiclass, vec!["multiclass".into(), name.clone()], doc, checked);
        let range = self.p.decls[d].range;
        let nt = self.rng.below(3); // zero template arguments on purpose in a third of the cases
        if nt == 0 {
            self.p.features.push("multiclass:no-template-args");
        }
        let targs = self.template_args(&name, nt);
        // parent multiclass
        if !self.mcs.is_empty() && self.rng.chance(1, 4) {
            let m = self.mcs[self.rng.below(self.mcs.len())].clone();
            self.put(" : ");
            self.mc_targs = targs.clone();
            self.mc_ref(&m, "parent-multiclass");
            self.mc_targs.clear();
        }
        self.put(" {");
        self.indent += 1;
        self.ctx_stack.push("multiclass");
        self.mc_targs = targs.clone();
        self.in_multiclass = true;
        self.scopes.push(vec![]);
        let n = self.rng.range(1, 3);
        for _ in 0..n {
            self.nl();
            match self.rng.below(6) {
                0 | 1 | 2 => {
                    let ci = if !self.classes.is_empty() && self.rng.chance(3, 4) { Some(self.classes[self.rng.below(self.classes.len())].clone()) } else { None };
                    self.def_stmt(ci.as_ref());
                }
                3 => self.foreach_stmt(2),
                4 => self.if_stmt(2),
                _ => self.assert_stmt(),
            }
            self.trim_trailing_ws();
        }
        self.scopes.pop();
        self.in_multiclass = false;
        self.mc_targs.clear();
        self.ctx_stack.pop();
        self.indent -= 1;
        self.nl();
        self.put("}");
        self.fold_end(start, "multiclass");
        let children: Vec<OutlineNode> =
            targs.iter().map(|a| OutlineNode { name: a.name.clone(), kind: "TemplateArgument", range: self.p.decls[a.decl].range, children: vec![] }).collect();
        // the multiclass entry goes BEFORE the defs declared inside it (source order of the declaring identifiers)
        let node = OutlineNode { name: name.clone(), kind: "Multiclass", range, children };
        let list = match self.outline_stack.last_mut() {
            Some(c) => c,
            None => &mut self.p.outline[self.cur],
        };
        let at = list.iter().position(|n| n.range.0 > range.0).unwrap_or(list.len());
        list.insert(at, node);
        self.mcs.push(McInfo { name, decl: d, targs });
        self.p.features.push("stmt:multiclass");
        self.end_stmt();
    }

    fn mc_ref(&mut self, m: &McInfo, position: &'static str) {
        let s = self.pos();
        self.use_here(&m.name, m.decl, position);
        let name_end = self.pos();
        let required = m.targs.iter().rposition(|a| !a.has_default).map(|i| i + 1).unwrap_or(0);
        let n = if m.targs.len() > required { self.rng.range(required, m.targs.len()) } else { required };
        if n > 0 {
            self.put("<");
            for i in 0..n {
                if i > 0 {
                    self.put(", ");
                }
                let a = self.pos();
                self.p.hints.push(Hint { file: self.cur, pos: a, label: format!("{}:", m.targs[i].name), kind: "multiclass-arg" });
                let t = m.targs[i].ty.clone();
                self.value(&t, 2, "template-arg-value");
            }
            self.put(">");
        }
        let fresh = format!("UndefinedMulti_{}", self.p.fault_sites.len());
        let l = fresh.len();
        self.p.fault_sites.push(FaultSite { file: self.cur, span: (s, name_end), replacement: fresh, class: "undefined-multiclass", expect: (s, s + l) });
    }

    pub fn defm_stmt(&mut self) {
        if self.mcs.is_empty() {
            self.assert_stmt();
            return;
        }
        let m = self.mcs[self.rng.below(self.mcs.len())].clone();
        self.put("defm");
        if self.in_loop == 0 && self.rng.chance(4, 5) {
            self.put(" ");
            let name = self.fresh("dm");
            self.decl_here(&name, DeclKind::Defm, vec!["defm".into(), name.clone()], None, false);
        } else {
            self.p.features.push("defm:anonymous");
        }
        self.put(" : ");
        self.mc_ref(&m, "defm-parent");
        self.put(";");
        self.p.features.push("stmt:defm");
        self.end_stmt();
    }
}
