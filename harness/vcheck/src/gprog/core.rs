//! G-prog generator state: writer, language-level environment (what is in scope where), names.
use super::model::*;
use crate::core::Rng;
use std::collections::HashSet;

#[derive(Clone, Debug)]
pub struct Cfg {
    pub max_includes: usize,
    pub statements: usize,
    pub paste_names: bool,
    pub docs: bool,
    pub crlf: bool,
    /// every line break is drawn separately from LF / CRLF, with occasional empty lines (so CRLF meets LF)
    pub mixed_eol: bool,
    /// `class C;` in front of some class definitions (only where the expectations do not depend on which of the
    /// two statements "the declaration" is: outline and hover)
    pub forward_decls: bool,
    /// fields / template arguments may reuse the name of a global defvar
    pub cross_kind_shadow: bool,
    pub non_ascii: bool,
    pub dead_use: bool,
    pub multiclass_args_hints: bool,
    /// `def i # "_x"`: the pasted name starts with the loop variable (only for sweeps: what the head denotes -
    /// the variable or the new def - is not fixed by the statements that need expectations)
    pub paste_head_var: bool,
    /// restrict to what llvm-tblgen 14 parses and evaluates without error
    pub auditable: bool,
}
impl Cfg {
    pub fn default_for(rng: &mut Rng) -> Cfg {
        Cfg {
            max_includes: rng.below(3),
            statements: rng.range(4, 12),
            paste_names: rng.chance(1, 2),
            docs: rng.chance(2, 3),
            crlf: rng.chance(1, 6),
            mixed_eol: false,
            forward_decls: false,
            cross_kind_shadow: true,
            non_ascii: rng.chance(1, 3),
            dead_use: false,
            multiclass_args_hints: true,
            paste_head_var: false,
            auditable: true,
        }
    }
}

#[derive(Clone, Debug)]
pub struct TArg {
    pub name: String,
    pub ty: Ty,
    pub has_default: bool,
    pub decl: usize,
}
#[derive(Clone, Debug)]
pub struct FieldInfo {
    pub name: String,
    pub ty: Ty,
    pub decl: usize,
    /// overridden by a `let` somewhere on the way: no longer used as a name (ambiguous target)
    pub overridden: bool,
    /// has an initialiser (an uninitialised field must not be read: llvm-tblgen cannot resolve the def)
    pub usable: bool,
}
#[derive(Clone, Debug)]
pub struct ClassInfo {
    pub name: String,
    pub decl: usize,
    pub targs: Vec<TArg>,
    pub fields: Vec<FieldInfo>, // own and inherited
    pub ancestors: Vec<String>, // transitive, including itself
}
#[derive(Clone, Debug)]
pub struct DefInfo {
    pub name: String,
    pub decl: usize,
    pub ancestors: Vec<String>,
    pub fields: Vec<FieldInfo>,
    /// usable as a value by name (not pasted, not inside a multiclass / untaken branch)
    pub nameable: bool,
}
#[derive(Clone, Debug)]
pub struct McInfo {
    pub name: String,
    pub decl: usize,
    pub targs: Vec<TArg>,
}
#[derive(Clone, Debug)]
pub struct VarInfo {
    pub name: String,
    pub ty: Ty,
    pub decl: usize,
}
#[derive(Clone, Debug, Default)]
pub struct RecCtx {
    pub targs: Vec<TArg>,
    pub fields: Vec<FieldInfo>,
    pub is_class: bool,
}

pub struct FileBuf {
    pub path: String,
    pub text: String,
}

pub struct G<'r> {
    pub rng: &'r mut Rng,
    pub cfg: Cfg,
    pub files: Vec<FileBuf>,
    pub cur: usize,
    pub indent: usize,
    pub p: Program,
    // environment
    pub classes: Vec<ClassInfo>,
    pub defs: Vec<DefInfo>,
    pub mcs: Vec<McInfo>,
    pub gvars: Vec<VarInfo>,
    pub defsets: Vec<(String, String, usize)>, // (name, element class, decl)
    pub scopes: Vec<Vec<VarInfo>>,
    pub rec: Option<RecCtx>,
    pub mc_targs: Vec<TArg>,
    pub used_names: HashSet<String>,
    pub counter: usize,
    /// context stack for decl.context
    pub ctx_stack: Vec<&'static str>,
    /// >0 while generating code that llvm-tblgen may never evaluate with defs nameable from outside
    pub in_multiclass: bool,
    pub in_loop: u32,
    pub loop_vars: Vec<String>,
    pub in_branch: u32,
    pub outline_stack: Vec<Vec<OutlineNode>>,
    pub ops_def: Option<usize>, // index into defs of the dag operator def
    pub defset_class: Option<ClassInfo>,
    /// set while a `let` value is generated: no field of the record is visible there (an overriding value that
    /// reads a field whose initialiser reads the overridden field would be a resolution cycle)
    pub hidden_field: Option<String>,
    pub no_trailing: u32,
    pub dup_loops: u32,
    pub force_braces: bool,
    pub braceless: u32,
    pub guarded_includes: Vec<String>,
    pub eol: &'static str,
    /// global names that must not be used at the moment (see `shadow_name`)
    pub masked: Vec<String>,
    /// global defvar names already reused as a field / template-argument name
    pub shadowed_globals: HashSet<String>,
}

pub const NON_ASCII_WORDS: [&str; 4] = ["caf\u{e9}", "\u{20ac}uro", "\u{1d11e}clef", "\u{3042}\u{3044}"];

impl<'r> G<'r> {
    pub fn new(rng: &'r mut Rng, cfg: Cfg) -> Self {
        let eol = if cfg.crlf { "\r\n" } else { "\n" };
        G {
            rng,
            cfg,
            files: vec![FileBuf { path: "/ws/main.td".into(), text: String::new() }],
            cur: 0,
            indent: 0,
            p: Program { outline: vec![vec![]], ..Default::default() },
            classes: vec![],
            defs: vec![],
            mcs: vec![],
            gvars: vec![],
            defsets: vec![],
            scopes: vec![],
            rec: None,
            mc_targs: vec![],
            used_names: HashSet::new(),
            counter: 0,
            ctx_stack: vec!["toplevel"],
            in_multiclass: false,
            in_loop: 0,
            loop_vars: vec![],
            in_branch: 0,
            outline_stack: vec![],
            ops_def: None,
            defset_class: None,
            hidden_field: None,
            no_trailing: 0,
            dup_loops: 0,
            force_braces: false,
            braceless: 0,
            guarded_includes: Vec::new(),
            eol,
            masked: vec![],
            shadowed_globals: HashSet::new(),
        }
    }

    // ---------------------------------------------------------------- writer
    pub fn put(&mut self, s: &str) {
        self.files[self.cur].text.push_str(s);
    }
    pub fn pos(&self) -> usize {
        self.files[self.cur].text.len()
    }
    pub fn nl(&mut self) {
        let mut e = self.eol;
        if self.cfg.mixed_eol {
            // LF, CRLF, and now and then a lone CR (also directly in front of a CRLF: two line breaks, CR CR LF)
            e = match self.rng.below(8) {
                0..=3 => "\n",
                4..=6 => "\r\n",
                _ => "\r",
            };
        }
        let after_comment = {
            let t = &self.files[self.cur].text;
            let line = &t[t.rfind('\n').map(|i| i + 1).unwrap_or(0)..];
            line.contains("//")
        };
        self.put(e);
        if self.cfg.mixed_eol && !after_comment && self.rng.chance(1, 4) {
            // an empty line with the other terminator
            let e2 = if e == "\n" || e == "\r" { "\r\n" } else { "\n" };
            self.put(e2);
        }
        let ind = "  ".repeat(self.indent);
        self.put(&ind);
    }
    /// a space, sometimes a block comment (never a line comment: those are doc material)
    pub fn sp(&mut self) {
        if self.rng.chance(1, 40) {
            if self.cfg.non_ascii && self.rng.chance(1, 2) {
                let w = NON_ASCII_WORDS[self.rng.below(NON_ASCII_WORDS.len())];
                self.put(&format!(" /* {} */ ", w));
            } else {
                self.put(" /* c */ ");
            }
        } else {
            self.put(" ");
        }
    }
    pub fn context(&self) -> &'static str {
        self.ctx_stack.last().copied().unwrap_or("toplevel")
    }

    // ---------------------------------------------------------------- names
    /// name for a field or template argument of a class: now and then the name of a GLOBAL defvar (the record's own
    /// declaration is the inner one and wins inside the record; outside, the defvar is still what the name means).
    /// Only globals: a defvar of an enclosing block would win over a field in llvm-tblgen, against "innermost wins".
    pub fn shadow_name(&mut self, prefix: &str, own_scopes: usize) -> String {
        if self.cfg.cross_kind_shadow && self.scopes.len() == own_scopes && self.rng.chance(1, 5) {
            let cands: Vec<String> = self
                .gvars
                .iter()
                .filter(|g| self.p.decls[g.decl].kind == DeclKind::Defvar && !self.shadowed_globals.contains(&g.name))
                .map(|g| g.name.clone())
                .collect();
            if !cands.is_empty() {
                let n = cands[self.rng.below(cands.len())].clone();
                self.shadowed_globals.insert(n.clone());
                self.p.features.push("scope:field-or-template-arg-shadows-global-defvar");
                return n;
            }
        }
        self.fresh(prefix)
    }
    /// name for a bang-operator variable: now and then the name of a visible block variable or global defvar, which it
    /// shadows until the operator's closing parenthesis (never another bang variable, a field or a template argument -
    /// llvm-tblgen rejects that - and never a loop variable)
    pub fn bang_var_name(&mut self, prefix: &str, not: &[String]) -> String {
        if self.cfg.cross_kind_shadow && self.rng.chance(1, 4) {
            let mut taken: HashSet<String> = self.loop_vars.iter().cloned().collect();
            if let Some(r) = &self.rec {
                taken.extend(r.fields.iter().map(|f| f.name.clone()));
                taken.extend(r.targs.iter().map(|a| a.name.clone()));
            }
            taken.extend(self.mc_targs.iter().map(|a| a.name.clone()));
            taken.extend(self.masked.iter().cloned());
            taken.extend(not.iter().cloned());
            // (a name that an enclosing bang operator already uses for its variable cannot be used again)
            taken.extend(self.scopes.iter().flat_map(|s| s.iter()).filter(|v| self.p.decls[v.decl].kind == DeclKind::BangVar).map(|v| v.name.clone()));
            let cands: Vec<String> = self
                .scopes
                .iter()
                .flat_map(|s| s.iter())
                .chain(self.gvars.iter())
                .filter(|v| self.p.decls[v.decl].kind == DeclKind::Defvar && !taken.contains(&v.name))
                .map(|v| v.name.clone())
                .collect();
            if !cands.is_empty() {
                self.p.features.push("scope:bang-var-shadows-outer-variable");
                return cands[self.rng.below(cands.len())].clone();
            }
        }
        self.fresh(prefix)
    }
    pub fn fresh(&mut self, prefix: &str) -> String {
        loop {
            self.counter += 1;
            let suffix = ["", "_x", "Y", "0"][self.rng.below(4)];
            let n = format!("{}{}{}", prefix, self.counter, suffix);
            if self.used_names.insert(n.clone()) {
                return n;
            }
        }
    }

    // ---------------------------------------------------------------- declarations / uses
    pub fn decl_here(&mut self, name: &str, kind: DeclKind, sig_parts: Vec<String>, doc: Option<Vec<String>>, doc_checked: bool) -> usize {
        let s = self.pos();
        self.put(name);
        let e = self.pos();
        let context = self.context();
        self.p.decls.push(Decl { file: self.cur, range: (s, e), kind, name: name.to_string(), sig_parts, doc, doc_checked, context });
        self.p.decls.len() - 1
    }
    pub fn use_here(&mut self, name: &str, decl: usize, position: &'static str) {
        let s = self.pos();
        self.put(name);
        let e = self.pos();
        self.p.uses.push(Use { file: self.cur, range: (s, e), decl, position, optional: false });
        if !matches!(position, "parent-class" | "class-value" | "type" | "defset-type" | "defm-parent" | "parent-multiclass" | "field-let-name" | "field-access") {
            let fresh = format!("undefined_name_{}", self.p.fault_sites.len());
            let l = fresh.len();
            self.p.fault_sites.push(FaultSite { file: self.cur, span: (s, e), replacement: fresh, class: "undefined-identifier", expect: (s, s + l) });
        }
    }

    // ---------------------------------------------------------------- scope queries (language rules)
    /// all value names visible here with their types and declarations, innermost first; names hidden by an
    /// inner declaration of the same name are dropped
    pub fn visible_values(&self) -> Vec<(String, Ty, usize)> {
        let mut out: Vec<(String, Ty, usize)> = Vec::new();
        let mut seen: HashSet<String> = HashSet::new();
        for sc in self.scopes.iter().rev() {
            for v in sc.iter().rev() {
                if seen.insert(v.name.clone()) {
                    out.push((v.name.clone(), v.ty.clone(), v.decl));
                }
            }
        }
        if let Some(r) = &self.rec {
            for f in r.fields.iter().rev() {
                if f.overridden || !f.usable || self.hidden_field.is_some() {
                    seen.insert(f.name.clone());
                    continue;
                }
                if seen.insert(f.name.clone()) {
                    out.push((f.name.clone(), f.ty.clone(), f.decl));
                }
            }
            for a in &r.targs {
                if seen.insert(a.name.clone()) {
                    out.push((a.name.clone(), a.ty.clone(), a.decl));
                }
            }
        }
        for a in &self.mc_targs {
            if seen.insert(a.name.clone()) {
                out.push((a.name.clone(), a.ty.clone(), a.decl));
            }
        }
        for v in self.gvars.iter().rev() {
            if self.masked.contains(&v.name) {
                continue; // a field / template argument of the record at hand has this name, but is not visible here
            }
            if seen.insert(v.name.clone()) {
                out.push((v.name.clone(), v.ty.clone(), v.decl));
            }
        }
        out
    }
    pub fn names_of_type(&self, ty: &Ty) -> Vec<(String, usize)> {
        let mut v: Vec<(String, usize)> = self.visible_values().into_iter().filter(|(_, t, _)| t == ty).map(|(n, _, d)| (n, d)).collect();
        if let Ty::Class(c) = ty {
            for d in &self.defs {
                if d.nameable && d.ancestors.contains(c) {
                    v.push((d.name.clone(), d.decl));
                }
            }
        }
        v
    }
    pub fn class(&self, name: &str) -> Option<&ClassInfo> {
        self.classes.iter().find(|c| c.name == name)
    }

    // ---------------------------------------------------------------- docs
    /// emits 0..n `//` lines above a declaration; returns (expected doc, checked)
    pub fn maybe_docs(&mut self) -> (Option<Vec<String>>, bool) {
        if !self.cfg.docs {
            return (None, true);
        }
        if self.braceless > 0 {
            // the declaration shares its line with `then` / `in`: nothing can be written "above" it
            return (None, false);
        }
        match self.rng.below(8) {
            0 | 1 | 2 => (None, true),
            3 => {
                // comment separated by a blank line: not a doc
                self.put("// detached remark");
                self.nl();
                self.nl();
                self.p.features.push("doc:blank-line-separated");
                (None, true)
            }
            4 => {
                // a block comment between the doc lines and the declaration: breaks adjacency
                self.put("// not adjacent");
                self.nl();
                self.put("/* block */");
                self.nl();
                self.p.features.push("doc:block-comment-between");
                (None, true)
            }
            _ => {
                let n = self.rng.range(1, 3);
                let mut lines = Vec::new();
                for i in 0..n {
                    if i > 0 && self.rng.chance(1, 4) {
                        // a bare `//` inside the block: a paragraph break, not the end of the block
                        self.put("//");
                        self.nl();
                        lines.push(String::new());
                        self.p.features.push("doc:bare-comment-line-inside-block");
                    }
                    let mut l = format!("doc line {} of {}", i + 1, self.counter);
                    if self.cfg.non_ascii && self.rng.chance(1, 3) {
                        l.push(' ');
                        l.push_str(NON_ASCII_WORDS[self.rng.below(NON_ASCII_WORDS.len())]);
                    }
                    let slashes = if self.rng.chance(1, 4) { "///" } else { "//" };
                    let gap = if self.rng.chance(1, 5) { "" } else { " " };
                    self.put(&format!("{}{}{}", slashes, gap, l));
                    self.nl();
                    lines.push(l);
                }
                self.p.features.push("doc:lines");
                (Some(lines), true)
            }
        }
    }
}
