//! G-prog data model: generated multi-file programs plus metadata known by construction.
use serde_json::{json, Value};

#[derive(Clone, Debug, PartialEq, Eq)]
pub enum Ty {
    Bit,
    Int,
    Str,
    Code,
    Dag,
    Bits(u8),
    List(Box<Ty>),
    Class(String),
}
impl Ty {
    pub fn render(&self) -> String {
        match self {
            Ty::Bit => "bit".into(),
            Ty::Int => "int".into(),
            Ty::Str => "string".into(),
            Ty::Code => "code".into(),
            Ty::Dag => "dag".into(),
            Ty::Bits(n) => format!("bits<{}>", n),
            Ty::List(t) => format!("list<{}>", t.render()),
            Ty::Class(c) => c.clone(),
        }
    }
}

#[derive(Clone, Copy, Debug, PartialEq, Eq)]
pub enum DeclKind {
    Class,
    Def,
    Multiclass,
    Defm,
    Defset,
    Defvar,
    TemplateArg,
    Field,
    ForeachVar,
    BangVar,
}
impl DeclKind {
    pub fn name(self) -> &'static str {
        match self {
            DeclKind::Class => "class",
            DeclKind::Def => "def",
            DeclKind::Multiclass => "multiclass",
            DeclKind::Defm => "defm",
            DeclKind::Defset => "defset",
            DeclKind::Defvar => "defvar",
            DeclKind::TemplateArg => "template-arg",
            DeclKind::Field => "field",
            DeclKind::ForeachVar => "foreach-var",
            DeclKind::BangVar => "bang-var",
        }
    }
}

#[derive(Clone, Debug)]
pub struct Decl {
    pub file: usize,
    pub range: (usize, usize),
    pub kind: DeclKind,
    pub name: String,
    /// strings the hover signature must contain (kind keyword, name, declared type)
    pub sig_parts: Vec<String>,
    /// Some(lines) = hover document must be exactly these lines; None = no document; `doc_checked` false = not demanded
    pub doc: Option<Vec<String>>,
    pub doc_checked: bool,
    /// where the declaration sits (for signatures): "toplevel", "foreach", "if", "let", "multiclass", "defset", "record", "bang"
    pub context: &'static str,
}

#[derive(Clone, Debug)]
pub struct Use {
    pub file: usize,
    pub range: (usize, usize),
    pub decl: usize,
    /// syntactic position of the use, e.g. "parent-class", "field-init", "parent-arg", "let-value", "foreach-range"
    pub position: &'static str,
    /// optional uses may or may not be listed by find-references and are not probed by go-to-definition
    pub optional: bool,
}

#[derive(Clone, Debug)]
pub struct DeadUse {
    pub file: usize,
    pub range: (usize, usize),
    pub decl: usize,
    pub construct: &'static str,
}

#[derive(Clone, Debug)]
pub struct OutlineNode {
    pub name: String,
    pub kind: &'static str, // "Class" | "Def" | "Defset" | "Multiclass" | "TemplateArgument" | "Field"
    pub range: (usize, usize),
    pub children: Vec<OutlineNode>,
}

#[derive(Clone, Debug)]
pub struct Fold {
    pub file: usize,
    pub range: (usize, usize),
    pub kind: &'static str,
}

#[derive(Clone, Debug)]
pub struct Hint {
    pub file: usize,
    pub pos: usize,
    pub label: String,
    pub kind: &'static str, // "template-arg" | "field-let" | "multiclass-arg"
}

#[derive(Clone, Debug)]
pub struct FaultSite {
    pub file: usize,
    /// span of the original text that is replaced
    pub span: (usize, usize),
    pub replacement: String,
    pub class: &'static str,
    /// span (in the mutated text) that some diagnostic must overlap
    pub expect: (usize, usize),
}

#[derive(Clone, Debug, Default)]
pub struct Program {
    pub files: Vec<(String, String)>,
    pub root: usize,
    pub decls: Vec<Decl>,
    pub uses: Vec<Use>,
    pub dead_uses: Vec<DeadUse>,
    pub outline: Vec<Vec<OutlineNode>>,
    pub folds: Vec<Fold>,
    pub hints: Vec<Hint>,
    pub fault_sites: Vec<FaultSite>,
    /// ranges of top-level `let` item names (hints there are not demanded either way)
    pub let_item_names: Vec<(usize, (usize, usize))>,
    pub features: Vec<&'static str>,
    /// include edges: (including file, included file)
    pub includes: Vec<(usize, usize)>,
}

impl Program {
    pub fn workspace(&self) -> crate::ws::Workspace {
        crate::ws::Workspace { files: self.files.clone(), root: self.root }
    }
    pub fn to_json(&self) -> Value {
        let mut v = self.workspace().to_json();
        v["kind"] = json!("gprog");
        v
    }
    /// all files concatenated in include order (for the llvm-tblgen audit the files are written to disk instead)
    pub fn total_len(&self) -> usize {
        self.files.iter().map(|f| f.1.len()).sum()
    }
    pub fn apply_fault(&self, site: &FaultSite) -> Program {
        let mut p = self.clone();
        let t = &self.files[site.file].1;
        p.files[site.file].1 = format!("{}{}{}", &t[..site.span.0], site.replacement, &t[site.span.1..]);
        p
    }
}
