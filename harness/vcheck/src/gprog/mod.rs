//! G-prog: scope- and type-tracking generator of multi-file TableGen programs of the supported core,
//! with the expected behaviour (declarations, uses, outline, folds, hints, fault sites) known by construction.
pub mod audit;
pub mod core;
pub mod model;
pub mod stmts;
pub mod values;

use self::core::*;
pub use self::core::Cfg;
pub use self::model::*;
use crate::core::Rng;

impl<'r> G<'r> {
    fn toplevel_statement(&mut self) {
        match self.rng.below(16) {
            0..=3 => self.class_stmt(),
            4..=6 => {
                let ci = if !self.classes.is_empty() && self.rng.chance(4, 5) { Some(self.classes[self.rng.below(self.classes.len())].clone()) } else { None };
                self.def_stmt(ci.as_ref());
            }
            7 => self.defvar_stmt(),
            8 => self.foreach_stmt(0),
            9 => self.if_stmt(0),
            10 => self.let_stmt(0),
            11 => self.defset_stmt(),
            12 | 13 => self.multiclass_stmt(),
            14 => self.defm_stmt(),
            _ => self.assert_stmt(),
        }
    }

    fn include_stmt(&mut self, k: usize) {
        // include "incK.td" (or a sub-directory); the included file gets its own top-level statements
        let sub = self.rng.chance(1, 3);
        // (with non-ASCII text enabled, also file names outside ASCII: the link's range then covers wide characters)
        let stem = if self.cfg.non_ascii && self.rng.chance(1, 2) { ["gr\u{fc}\u{df}e", "\u{5b9a}\u{7fa9}", "inc\u{1d11e}"][self.rng.below(3)] } else { "inc" };
        let rel = if sub { format!("sub/{}{}.td", stem, k) } else { format!("{}{}.td", stem, k) };
        let from_dir = {
            let p = &self.files[self.cur].path;
            p.rsplitn(2, '/').nth(1).unwrap_or("").to_string()
        };
        let path = format!("{}/{}", from_dir, rel);
        self.put("include ");
        let s = self.pos();
        self.put(&format!("\"{}\"", rel));
        let e = self.pos();
        let missing = format!("\"missing_{}.td\"", k);
        let l = missing.len();
        self.p.fault_sites.push(FaultSite { file: self.cur, span: (s, e), replacement: missing, class: "undefined-include", expect: (s, s + l) });
        self.nl();
        let parent = self.cur;
        self.files.push(FileBuf { path, text: String::new() });
        self.p.outline.push(vec![]);
        let child = self.files.len() - 1;
        self.p.includes.push((parent, child));
        self.cur = child;
        let saved_indent = self.indent;
        self.indent = 0;
        // different line structure than the root: leading comment / blank lines
        let lead = self.rng.below(4);
        for i in 0..lead {
            if i % 2 == 0 {
                self.put("/* header of an included file */");
            }
            self.nl();
        }
        // the usual include guard around the whole file (semantically neutral)
        let guarded = self.rng.chance(1, 2);
        if guarded && !sub {
            self.guarded_includes.push(rel.clone());
        }
        // a diamond: this file includes an earlier guarded file of the same directory again
        if !sub && k >= 1 && !self.guarded_includes.is_empty() && self.rng.chance(1, 2) {
            let earlier = self.guarded_includes[0].clone();
            if earlier != rel {
                self.put(&format!("include \"{}\"", earlier));
                self.nl();
                self.p.features.push("diamond-include");
            }
        }
        if guarded {
            let g = format!("GUARD_INC{}_TD", k);
            self.put(&format!("#ifndef {}", g));
            self.nl();
            self.put(&format!("#define {}", g));
            self.nl();
            self.p.features.push("include-guard");
        }
        let n = self.rng.range(1, 4);
        for _ in 0..n {
            self.toplevel_statement();
        }
        if guarded {
            self.put("#endif // guard");
            self.nl();
        }
        self.cur = parent;
        self.indent = saved_indent;
        self.p.features.push("stmt:include");
    }

    fn dead_use(&mut self) {
        // declare something inside a construct, end the construct, then use the name
        let kind = self.rng.below(8);
        let name;
        let construct: &'static str;
        let dty;
        match kind {
            0 => {
                // defvar inside a foreach body
                construct = "foreach-body-defvar";
                name = self.fresh("dv");
                let it = self.fresh("i");
                self.put(&format!("foreach {} = [1] in {{ defvar ", it));
                let d = self.decl_here(&name, DeclKind::Defvar, vec![name.clone()], None, false);
                self.put(" = 1; }");
                self.nl();
                dty = d;
            }
            1 | 2 => {
                construct = if kind == 1 { "if-then-defvar" } else { "if-else-defvar" };
                name = self.fresh("dv");
                if kind == 1 {
                    self.put("if 1 then { defvar ");
                } else {
                    self.put("if 0 then { } else { defvar ");
                }
                let d = self.decl_here(&name, DeclKind::Defvar, vec![name.clone()], None, false);
                self.put(" = 1; }");
                self.nl();
                dty = d;
            }
            3 => {
                construct = "let-body-defvar";
                name = self.fresh("dv");
                self.put("let zz = 1 in { defvar ");
                let d = self.decl_here(&name, DeclKind::Defvar, vec![name.clone()], None, false);
                self.put(" = 1; }");
                self.nl();
                dty = d;
            }
            4 => {
                construct = "foreach-iterator";
                name = self.fresh("i");
                self.put("foreach ");
                let d = self.decl_here(&name, DeclKind::ForeachVar, vec![name.clone()], None, false);
                self.put(" = [1] in { }");
                self.nl();
                dty = d;
            }
            5 => {
                construct = "record-body-defvar";
                name = self.fresh("dv");
                let dn = self.fresh("d");
                self.put(&format!("def {} {{ defvar ", dn));
                let d = self.decl_here(&name, DeclKind::Defvar, vec![name.clone()], None, false);
                self.put(" = 1; }");
                self.nl();
                dty = d;
            }
            6 => {
                construct = "template-arg-of-another-class";
                name = self.fresh("p");
                let cn = self.fresh("C");
                self.put(&format!("class {}<int ", cn));
                let d = self.decl_here(&name, DeclKind::TemplateArg, vec![name.clone()], None, false);
                self.put("> { int q = ");
                self.use_here(&name, d, "field-init");
                self.put("; }");
                self.nl();
                dty = d;
            }
            _ => {
                construct = "multiclass-template-arg";
                name = self.fresh("p");
                let mn = self.fresh("M");
                self.put(&format!("multiclass {}<int ", mn));
                let d = self.decl_here(&name, DeclKind::TemplateArg, vec![name.clone()], None, false);
                self.put("> { def _z { int q = ");
                self.use_here(&name, d, "field-init");
                self.put("; } }");
                self.nl();
                dty = d;
            }
        }
        // the use after the construct has ended
        let dn = self.fresh("d");
        self.put(&format!("def {} {{ int y = ", dn));
        let s = self.pos();
        self.put(&name);
        let e = self.pos();
        self.put("; }");
        self.nl();
        self.p.dead_uses.push(DeadUse { file: self.cur, range: (s, e), decl: dty, construct });
        self.p.features.push("dead-use");
    }

    fn syntax_fault_sites(&mut self) {
        // token deletions / illegal insertions, in the root and in included files.
        // Only faults that no grammatical continuation can absorb: a deleted ';' or '=' (what follows them in
        // generated programs never continues the construct), and inserted characters that are no token at all.
        // Deleting a closer or inserting a '}' often leaves a text that parses further in another way, so that
        // the first error is legitimately far from the site.
        for f in 0..self.files.len() {
            let text = self.files[f].text.clone();
            // pieces inside code fragments are not tokens of their own
            let mut code_spans: Vec<(usize, usize)> = Vec::new();
            let mut from = 0;
            while let Some(a) = text[from..].find("[{") {
                let a = from + a;
                let b = text[a..].find("}]").map(|b| a + b + 2).unwrap_or(text.len());
                code_spans.push((a, b));
                from = b;
            }
            let pieces: Vec<_> = crate::texts::split_pieces(&text).into_iter().filter(|p| !code_spans.iter().any(|c| p.0 >= c.0 && p.1 <= c.1)).collect();
            let sig: Vec<(usize, usize)> = pieces
                .iter()
                .filter(|p| matches!(p.2, crate::texts::PieceKind::Punct) && matches!(&text[p.0..p.1], ";" | "="))
                .map(|p| (p.0, p.1))
                .collect();
            for _ in 0..3 {
                if sig.is_empty() {
                    break;
                }
                let (s, e) = sig[self.rng.below(sig.len())];
                // `let f {..}` / `let f <..>` are grammatical beginnings: an '=' before '{' or '<' is not a usable site
                if &text[s..e] == "=" && matches!(text[e..].trim_start().chars().next(), Some('{') | Some('<')) {
                    continue;
                }
                // the gap through the next non-trivia token
                let next = pieces.iter().find(|p| p.0 >= e && !matches!(p.2, crate::texts::PieceKind::Space | crate::texts::PieceKind::Comment));
                // a preprocessor directive is trivia for the parser: what follows the gap is then only known to
                // lie somewhere behind it (up to the end of the file)
                let upto = match next {
                    Some(p) if text[p.0..p.1].starts_with('#') && p.1 - p.0 > 1 => text.len(),
                    Some(p) => p.1,
                    None => text.len(),
                };
                self.p.fault_sites.push(FaultSite { file: f, span: (s, e), replacement: String::new(), class: "syntax-delete-token", expect: (s, (upto - (e - s)).max(s + 1)) });
            }
            let words: Vec<(usize, usize)> = pieces.iter().filter(|p| p.2 == crate::texts::PieceKind::Word).map(|p| (p.0, p.1)).collect();
            for _ in 0..2 {
                if words.is_empty() {
                    break;
                }
                let (s, _) = words[self.rng.below(words.len())];
                let junk = ["@ ", "` ", ".. ", "\\ "][self.rng.below(4)];
                self.p.fault_sites.push(FaultSite { file: f, span: (s, s), replacement: junk.to_string(), class: "syntax-insert-token", expect: (s, s + junk.len()) });
            }
        }
    }
}

pub fn generate(rng: &mut Rng, cfg: Cfg) -> Program {
    let mut g = G::new(rng, cfg);
    // a def usable as a dag operator, and one class, so that every program has material to refer to
    {
        g.put("def ");
        let name = g.fresh("ops");
        let d = g.decl_here(&name, DeclKind::Def, vec!["def".into(), name.clone()], None, true);
        g.put(";");
        g.nl();
        let range = g.p.decls[d].range;
        g.p.outline[0].push(OutlineNode { name: name.clone(), kind: "Def", range, children: vec![] });
        // a body-less def statement is still a def statement: it folds
        g.p.folds.push(Fold { file: 0, range: (range.0 - 4, range.1 + 1), kind: "def" });
        g.defs.push(DefInfo { name, decl: d, ancestors: vec![], fields: vec![], nameable: true });
        g.ops_def = Some(g.defs.len() - 1);
    }
    let n = g.cfg.statements;
    let mut includes_left = g.cfg.max_includes;
    for i in 0..n {
        if includes_left > 0 && g.rng.chance(1, 3) {
            let k = g.cfg.max_includes - includes_left;
            g.include_stmt(k);
            includes_left -= 1;
        }
        g.toplevel_statement();
        // the same guarded file included a second time: nothing new may come out of it
        if !g.guarded_includes.is_empty() && g.rng.chance(1, 6) {
            let again = g.guarded_includes[g.rng.below(g.guarded_includes.len())].clone();
            g.put(&format!("include \"{}\"", again));
            g.nl();
            g.p.features.push("duplicate-include");
        }
        let _ = i;
    }
    if g.cfg.dead_use {
        g.dead_use();
    }
    g.syntax_fault_sites();
    let mut p = std::mem::take(&mut g.p);
    p.files = g.files.iter().map(|f| (f.path.clone(), f.text.clone())).collect();
    p.root = 0;
    p
}
