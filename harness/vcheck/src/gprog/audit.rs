//! llvm-tblgen 14 as an audit of the generator (never a verdict source): a "well-formed" program it rejects,
//! or a "faulty" one it accepts, is discarded and counted.
use super::model::Program;
use std::path::PathBuf;

pub const TBLGEN: &str = "/usr/bin/llvm-tblgen";

pub fn available() -> bool {
    std::path::Path::new(TBLGEN).exists()
}

pub enum Audit {
    Accepted,
    Rejected(String),
    Unavailable,
}

pub fn run(p: &Program, tag: &str) -> Audit {
    if !available() {
        return Audit::Unavailable;
    }
    let dir = PathBuf::from(format!("{}/target/work/audit/{}.{}", crate::core::VERIF_ROOT, tag, std::process::id()));
    let _ = std::fs::remove_dir_all(&dir);
    for (path, text) in &p.files {
        let f = dir.join(path.trim_start_matches('/'));
        if let Some(parent) = f.parent() {
            let _ = std::fs::create_dir_all(parent);
        }
        if std::fs::write(&f, text).is_err() {
            return Audit::Unavailable;
        }
    }
    let root = dir.join(p.files[p.root].0.trim_start_matches('/'));
    let root_dir = root.parent().map(|p| p.to_path_buf()).unwrap_or(dir.clone());
    use std::os::unix::process::CommandExt;
    let mut cmd = std::process::Command::new(TBLGEN);
    // llvm-tblgen can run away on some well-formed inputs (seen: 40 GB / 20 min): bound it, and treat a
    // killed audit as "no audit for this sample"
    unsafe {
        cmd.pre_exec(|| {
            let cpu = libc::rlimit { rlim_cur: 10, rlim_max: 10 };
            libc::setrlimit(libc::RLIMIT_CPU, &cpu);
            let mem = libc::rlimit { rlim_cur: 2 << 30, rlim_max: 2 << 30 };
            libc::setrlimit(libc::RLIMIT_AS, &mem);
            Ok(())
        });
    }
    let out = cmd.arg(&root).arg("-I").arg(&root_dir).arg("-o").arg("/dev/null").arg("--no-warn-on-unused-template-args").output();
    let r = match out {
        Err(_) => Audit::Unavailable,
        Ok(o) => {
            use std::os::unix::process::ExitStatusExt;
            if o.status.success() {
                Audit::Accepted
            } else if o.status.signal().is_some() || String::from_utf8_lossy(&o.stderr).contains("out of memory") || String::from_utf8_lossy(&o.stderr).contains("bad_alloc") {
                Audit::Unavailable
            } else {
                let e = String::from_utf8_lossy(&o.stderr);
                let line = e.lines().find(|l| l.contains("error")).unwrap_or("").to_string();
                let line = line.replace(dir.to_string_lossy().as_ref(), "");
                Audit::Rejected(line)
            }
        }
    };
    let _ = std::fs::remove_dir_all(&dir);
    r
}
