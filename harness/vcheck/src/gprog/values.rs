//! G-prog value generation: emits a value of a requested type, using in-scope names, literals and the
//! typed bang operators of the LLVM-14 set, and records every name it uses.
use super::core::*;
use super::model::*;

impl<'r> G<'r> {
    fn lit_int(&mut self) -> String {
        // no 0b literals here: llvm-tblgen types them bits<n>, which leaks into !foldl / !if result types
        match self.rng.below(6) {
            0 => format!("0x{:X}", self.rng.below(255)),
            1 => format!("-{}", self.rng.range(1, 9)),
            _ => format!("{}", self.rng.below(100)),
        }
    }
    fn lit_str(&mut self) -> String {
        let words = ["a", "xy", "name", "v 1", "q_z"];
        let mut s = words[self.rng.below(words.len())].to_string();
        if self.rng.chance(1, 8) {
            // escapes, also directly in front of the closing quote: "C:\\", "q\"", "t\tn\n"
            s = ["C:\\\\", "q\\\"", "t\\tn\\n", "it\\'s"][self.rng.below(4)].to_string();
            self.p.features.push("string:escapes");
        }
        if self.cfg.non_ascii && self.rng.chance(1, 5) {
            s.push_str(NON_ASCII_WORDS[self.rng.below(NON_ASCII_WORDS.len())]);
        }
        format!("\"{}\"", s)
    }

    /// Emit a value of type `ty`. `position` labels the uses recorded inside it.
    pub fn value(&mut self, ty: &Ty, depth: u32, position: &'static str) {
        // a visible name of exactly that type
        let names = self.names_of_type(ty);
        if !names.is_empty() && self.rng.chance(2, 5) {
            let (n, d) = names[self.rng.below(names.len())].clone();
            self.use_here(&n, d, position);
            return;
        }
        let deep = depth < 3 && self.rng.chance(2, 5);
        match ty {
            Ty::Int => {
                if deep {
                    match self.rng.below(8) {
                        0 | 1 => {
                            let op = ["!add", "!sub", "!mul", "!and", "!or", "!xor", "!shl", "!sra", "!srl"][self.rng.below(9)];
                            let n = if matches!(op, "!add" | "!mul" | "!and" | "!or" | "!xor") && self.rng.chance(1, 3) { 3 } else { 2 };
                            self.call(op, n, |g, _| g.value(&Ty::Int, depth + 1, position), "arity:fixed-int");
                        }
                        2 => {
                            let s = self.pos();
                            self.put("!if(");
                            self.value(&Ty::Bit, depth + 1, position);
                            self.put(", ");
                            self.value(&Ty::Int, depth + 1, position);
                            self.put(", ");
                            self.value(&Ty::Int, depth + 1, position);
                            self.put(")");
                            let _ = s;
                        }
                        3 => {
                            self.put("!size(");
                            if self.rng.chance(1, 2) {
                                self.value(&Ty::Str, depth + 1, position);
                            } else {
                                self.value(&Ty::List(Box::new(Ty::Int)), depth + 1, position);
                            }
                            self.put(")");
                        }
                        4 => {
                            // !foldl(init, list, acc, var, expr): acc and var live until the closing parenthesis
                            let acc = self.bang_var_name("acc", &[]);
                            let var = self.bang_var_name("e", &[acc.clone()]);
                            // half of the folds run over strings: accumulator type (int) != element type (string)
                            let over_str = self.rng.chance(1, 2);
                            let elem = if over_str { Ty::Str } else { Ty::Int };
                            self.put("!foldl(");
                            if self.rng.chance(1, 4) {
                                // a start value whose type has to come from its operands
                                self.put("!cond(true: ");
                                self.value(&Ty::Int, depth + 1, position);
                                self.put(")");
                                self.p.features.push("bang:foldl-untyped-start");
                            } else {
                                self.value(&Ty::Int, depth + 1, position);
                            }
                            self.put(", ");
                            self.value(&Ty::List(Box::new(elem.clone())), depth + 1, position);
                            self.put(", ");
                            self.ctx_stack.push("bang");
                            let da = self.decl_here(&acc, DeclKind::BangVar, vec![acc.clone()], None, false);
                            self.put(", ");
                            let dv = self.decl_here(&var, DeclKind::BangVar, vec![var.clone()], None, false);
                            self.ctx_stack.pop();
                            self.put(", ");
                            self.scopes.push(vec![VarInfo { name: acc.clone(), ty: Ty::Int, decl: da }, VarInfo { name: var.clone(), ty: elem.clone(), decl: dv }]);
                            let untyped = self.rng.chance(1, 3);
                            if untyped {
                                self.put("!cond(true: ");
                                self.p.features.push("bang:untyped-body");
                            }
                            self.put("!add(");
                            self.use_here(&acc, da, "bang-body");
                            self.put(", ");
                            if over_str {
                                self.put("!size(");
                                self.use_here(&var, dv, "bang-body");
                                self.put(")");
                                self.p.features.push("bang:foldl-acc-and-element-types-differ");
                            } else if self.rng.chance(1, 2) {
                                self.use_here(&var, dv, "bang-body");
                            } else {
                                self.value(&Ty::Int, depth + 1, "bang-body");
                            }
                            self.put(")");
                            if untyped {
                                self.put(")");
                            }
                            self.scopes.pop();
                            self.put(")");
                            self.p.features.push("bang:foldl");
                        }
                        5 => {
                            self.put("!cond(");
                            self.value(&Ty::Bit, depth + 1, position);
                            self.put(": ");
                            self.value(&Ty::Int, depth + 1, position);
                            self.put(", 1: ");
                            self.value(&Ty::Int, depth + 1, position);
                            self.put(")");
                            self.p.features.push("bang:cond");
                        }
                        6 => {
                            self.put("!find(");
                            self.value(&Ty::Str, depth + 1, position);
                            self.put(", ");
                            self.value(&Ty::Str, depth + 1, position);
                            self.put(")");
                        }
                        _ => {
                            // field of a def: d.f
                            if !self.def_field(ty, position) {
                                let l = self.lit_int();
                                self.put(&l);
                            }
                        }
                    }
                } else {
                    let l = self.lit_int();
                    self.put(&l);
                }
            }
            Ty::Bit => {
                if deep {
                    match self.rng.below(4) {
                        0 | 1 => {
                            let op = ["!eq", "!ne", "!lt", "!le", "!gt", "!ge"][self.rng.below(6)];
                            let t = if self.rng.chance(1, 3) { Ty::Str } else { Ty::Int };
                            self.call(op, 2, |g, _| g.value(&t, depth + 1, position), "arity:comparison");
                        }
                        2 => {
                            self.put("!not(");
                            self.value(&Ty::Bit, depth + 1, position);
                            self.put(")");
                        }
                        _ => {
                            self.put("!empty(");
                            self.value(&Ty::List(Box::new(Ty::Int)), depth + 1, position);
                            self.put(")");
                        }
                    }
                } else {
                    let l = ["0", "1", "true", "false"][self.rng.below(4)];
                    self.put(l);
                }
            }
            Ty::Str => {
                if deep {
                    match self.rng.below(6) {
                        0 => {
                            // paste
                            let l = self.lit_str();
                            self.put(&l);
                            self.put(" # ");
                            self.value(&Ty::Str, depth + 1, position);
                        }
                        1 => {
                            let n = self.rng.range(2, 3);
                            self.call("!strconcat", n, |g, _| g.value(&Ty::Str, depth + 1, position), "arity:variadic");
                        }
                        2 => {
                            // the pattern is a non-empty literal: llvm-tblgen loops forever on an empty one
                            self.call("!subst", 3, |g, i| if i == 0 { g.put("\"xy\"") } else { g.value(&Ty::Str, depth + 1, position) }, "arity:subst");
                        }
                        3 => {
                            self.put("!interleave(");
                            if self.rng.chance(1, 2) {
                                self.value(&Ty::List(Box::new(Ty::Str)), depth + 1, position);
                            } else {
                                self.value(&Ty::List(Box::new(Ty::Int)), depth + 1, position);
                            }
                            self.put(", \", \")");
                        }
                        4 => {
                            self.put("!if(");
                            self.value(&Ty::Bit, depth + 1, position);
                            self.put(", ");
                            self.value(&Ty::Str, depth + 1, position);
                            self.put(", ");
                            self.value(&Ty::Str, depth + 1, position);
                            self.put(")");
                        }
                        _ => {
                            self.put("!cast<string>(");
                            self.value(&Ty::Int, depth + 1, position);
                            self.put(")");
                            self.p.features.push("bang:cast");
                        }
                    }
                } else {
                    let l = self.lit_str();
                    self.put(&l);
                }
            }
            Ty::Code => {
                if self.rng.chance(1, 2) {
                    self.put("[{ return x[0]; }]");
                } else {
                    let l = self.lit_str();
                    self.put(&l);
                }
            }
            Ty::Dag => {
                let Some(ops) = self.ops_def else {
                    self.put("?");
                    return;
                };
                let (on, od) = (self.defs[ops].name.clone(), self.defs[ops].decl);
                if deep && self.rng.chance(1, 3) {
                    self.call("!con", 2, |g, _| g.value(&Ty::Dag, depth + 1, position), "arity:variadic");
                } else {
                    self.put("(");
                    self.use_here(&on, od, "dag-operator");
                    let n = self.rng.below(3);
                    for i in 0..n {
                        self.put(if i == 0 { " " } else { ", " });
                        if self.rng.chance(1, 4) {
                            self.put(&format!("$n{}", i));
                        } else {
                            let t = if self.rng.chance(1, 2) { Ty::Int } else { Ty::Str };
                            self.value(&t, depth + 1, "dag-operand");
                            if self.rng.chance(1, 2) {
                                self.put(&format!(":$a{}", i));
                            }
                        }
                    }
                    self.put(")");
                }
            }
            Ty::Bits(n) => {
                if self.rng.chance(1, 2) {
                    self.put("{");
                    for i in 0..*n {
                        if i > 0 {
                            self.put(", ");
                        }
                        let b = ["0", "1"][self.rng.below(2)];
                        self.put(b);
                    }
                    self.put("}");
                } else {
                    let max = (1u32 << (*n).min(16)) - 1;
                    let v = self.rng.below(max as usize + 1);
                    self.put(&format!("{}", v));
                }
            }
            Ty::List(el) => {
                let el = (**el).clone();
                if deep && matches!(el, Ty::Int | Ty::Str) {
                    match self.rng.below(4) {
                        0 => {
                            self.call("!listconcat", 2, |g, _| g.value(&Ty::List(Box::new(el.clone())), depth + 1, position), "arity:variadic");
                        }
                        1 => {
                            self.put("!listsplat(");
                            self.value(&el, depth + 1, position);
                            self.put(", 2)");
                        }
                        2 => {
                            // !foreach(x, list<int>, expr): x lives until the closing parenthesis
                            let var = self.bang_var_name("it", &[]);
                            self.put("!foreach(");
                            self.ctx_stack.push("bang");
                            let dv = self.decl_here(&var, DeclKind::BangVar, vec![var.clone()], None, false);
                            self.ctx_stack.pop();
                            self.put(", ");
                            self.value(&Ty::List(Box::new(Ty::Int)), depth + 1, position);
                            self.put(", ");
                            self.scopes.push(vec![VarInfo { name: var.clone(), ty: Ty::Int, decl: dv }]);
                            if el == Ty::Int {
                                let untyped = self.rng.chance(1, 3);
                                if untyped {
                                    self.put("!cond(true: ");
                                    self.p.features.push("bang:untyped-body");
                                }
                                self.put("!add(");
                                self.use_here(&var, dv, "bang-body");
                                self.put(", ");
                                self.value(&Ty::Int, depth + 1, "bang-body");
                                self.put(")");
                                if untyped {
                                    self.put(")");
                                }
                            } else {
                                self.put("!cast<string>(");
                                self.use_here(&var, dv, "bang-body");
                                self.put(")");
                            }
                            self.scopes.pop();
                            self.put(")");
                            self.p.features.push("bang:foreach");
                        }
                        _ => {
                            if el == Ty::Int {
                                let var = self.bang_var_name("fl", &[]);
                                self.put("!filter(");
                                self.ctx_stack.push("bang");
                                let dv = self.decl_here(&var, DeclKind::BangVar, vec![var.clone()], None, false);
                                self.ctx_stack.pop();
                                self.put(", ");
                                self.value(&Ty::List(Box::new(Ty::Int)), depth + 1, position);
                                self.put(", ");
                                self.scopes.push(vec![VarInfo { name: var.clone(), ty: Ty::Int, decl: dv }]);
                                // the predicate comes in forms whose type the indexer can and cannot infer
                                let form = self.rng.below(3);
                                if form == 1 {
                                    self.put("!cond(");
                                } else if form == 2 {
                                    self.put("!if(true, ");
                                }
                                self.put("!lt(");
                                self.use_here(&var, dv, "bang-body");
                                self.put(", ");
                                self.value(&Ty::Int, depth + 1, "bang-body");
                                self.put(")");
                                if form == 1 {
                                    self.put(": 1, true: 0)");
                                    self.p.features.push("bang:untyped-body");
                                } else if form == 2 {
                                    self.put(", 0)");
                                }
                                self.scopes.pop();
                                self.put(")");
                                self.p.features.push("bang:filter");
                            } else {
                                self.list_literal(&el, depth, position);
                            }
                        }
                    }
                } else {
                    self.list_literal(&el, depth, position);
                }
            }
            Ty::Class(c) => {
                // anonymous instance C<args>
                let c = c.clone();
                let Some(ci) = self.class(&c).cloned() else {
                    self.put("?");
                    return;
                };
                self.class_ref(&ci, "class-value", depth + 1, true);
            }
        }
    }

    fn list_literal(&mut self, el: &Ty, depth: u32, position: &'static str) {
        self.put("[");
        let n = self.rng.range(1, 3);
        for i in 0..n {
            if i > 0 {
                self.put(", ");
            }
            self.value(el, depth + 1, position);
        }
        if self.rng.chance(1, 6) {
            self.put(",");
        }
        self.put("]");
    }

    /// `op(a, b, ...)`; registers an arity fault site for fixed-arity operators
    fn call(&mut self, op: &str, n: usize, mut arg: impl FnMut(&mut Self, usize), arity_class: &'static str) {
        let s = self.pos();
        self.put(op);
        self.put("(");
        let mut last_arg = (0, 0);
        for i in 0..n {
            if i > 0 {
                self.put(", ");
            }
            let a = self.pos();
            arg(self, i);
            last_arg = (a, self.pos());
        }
        self.put(")");
        let e = self.pos();
        if arity_class != "arity:variadic" && n == 2 {
            // drop the last operand: `op(a)`; the site is the whole call
            let text = self.files[self.cur].text.clone();
            let dropped = format!("{}{})", &text[s..last_arg.0].trim_end().trim_end_matches(','), "");
            let new_len = dropped.len();
            self.p.fault_sites.push(FaultSite { file: self.cur, span: (s, e), replacement: dropped, class: "operator-arity", expect: (s, s + new_len) });
        }
        // one operand too many for the operators that take exactly two (or, !subst, three): `op(a, b, b)`
        let strictly_fixed = matches!(op, "!sub" | "!shl" | "!sra" | "!srl" | "!subst") || arity_class == "arity:comparison";
        if strictly_fixed && n >= 2 {
            let text = self.files[self.cur].text.clone();
            let surplus = format!("{}, {})", &text[s..e - 1], &text[last_arg.0..last_arg.1]);
            let new_len = surplus.len();
            self.p.fault_sites.push(FaultSite { file: self.cur, span: (s, e), replacement: surplus, class: "operator-arity-surplus", expect: (s, s + new_len) });
        }
        self.p.features.push("bang:call");
    }

    /// `d.f` where def d has a non-overridden field f of type ty
    fn def_field(&mut self, ty: &Ty, position: &'static str) -> bool {
        let mut cands = Vec::new();
        for d in &self.defs {
            if !d.nameable {
                continue;
            }
            for f in &d.fields {
                if &f.ty == ty && !f.overridden && f.usable {
                    cands.push((d.name.clone(), d.decl, f.name.clone(), f.decl));
                }
            }
        }
        if cands.is_empty() {
            return false;
        }
        let (dn, dd, fname, fd) = cands[self.rng.below(cands.len())].clone();
        self.use_here(&dn, dd, position);
        self.put(".");
        self.use_here(&fname, fd, "field-access");
        self.p.features.push("value:field-access");
        true
    }

    /// `C<args>` (or bare `C`): a reference to class `ci` with positional arguments for its parameters.
    /// Records the use of C, the expected `param:` hints and the template-argument fault sites.
    pub fn class_ref(&mut self, ci: &ClassInfo, position: &'static str, depth: u32, value_form: bool) {
        let s = self.pos();
        self.use_here(&ci.name, ci.decl, position);
        let name_end = self.pos();
        // every argument up to the last one without a default must be passed positionally
        let required = ci.targs.iter().rposition(|a| !a.has_default).map(|i| i + 1).unwrap_or(0);
        // defaults only trail; choose how many args to pass
        let n = if ci.targs.len() > required { self.rng.range(required, ci.targs.len()) } else { required };
        let brackets = n > 0 || value_form || self.rng.chance(1, 5);
        let mut arg_spans = Vec::new();
        if brackets {
            self.put("<");
            for i in 0..n {
                if i > 0 {
                    self.put(", ");
                }
                let a = self.pos();
                self.p.hints.push(Hint { file: self.cur, pos: a, label: format!("{}:", ci.targs[i].name), kind: "template-arg" });
                let t = ci.targs[i].ty.clone();
                let param_unused = !self.p.uses.iter().any(|u| u.decl == ci.targs[i].decl);
                if param_unused && self.rng.chance(1, 3) {
                    // an explicitly unset argument (only for a parameter nothing is computed from - llvm-tblgen wants
                    // every initialiser of a def resolved): still the argument of parameter i
                    self.put("?");
                    self.p.features.push("template-arg:unset");
                } else {
                    self.value(&t, depth + 1, "template-arg-value");
                }
                arg_spans.push((a, self.pos(), t));
            }
            self.put(">");
        }
        let e = self.pos();
        // fault sites
        if n > 0 && n == required {
            // drop the last required argument
            let text = &self.files[self.cur].text;
            // drop the last required argument, or all of them (then defaulted arguments in front of it are unbound too)
            let repl = if n == 1 || self.rng.chance(1, 3) { format!("{}<>", &text[s..name_end]) } else { format!("{}>", &text[s..arg_spans[n - 2].1]) };
            let l = repl.len();
            self.p.fault_sites.push(FaultSite { file: self.cur, span: (s, e), replacement: repl, class: "missing-template-arg", expect: (s, s + l) });
        }
        if n == ci.targs.len() {
            let text = &self.files[self.cur].text;
            let repl = if brackets { format!("{}{}99>", &text[s..e - 1], if n > 0 { ", " } else { "" }) } else { format!("{}<99>", &text[s..e]) };
            let l = repl.len();
            self.p.fault_sites.push(FaultSite { file: self.cur, span: (s, e), replacement: repl, class: "surplus-template-arg", expect: (s, s + l) });
        }
        for (a, b, t) in &arg_spans {
            if let Some(bad) = incompatible_literal(t) {
                self.p.fault_sites.push(FaultSite { file: self.cur, span: (*a, *b), replacement: bad.to_string(), class: "type-incompatible-argument", expect: (*a, *a + bad.len()) });
            }
        }
        // undefined class: rename this use
        let fresh = format!("Undefined_{}", self.p.fault_sites.len());
        let l = fresh.len();
        self.p.fault_sites.push(FaultSite { file: self.cur, span: (s, name_end), replacement: fresh, class: "undefined-class", expect: (s, s + l) });
    }
}

/// a literal whose type has no conversion to `t` (never one of the documented convertible pairs)
pub fn incompatible_literal(t: &Ty) -> Option<&'static str> {
    Some(match t {
        // (the offending literal holds wide characters: the diagnostic's range covers non-ASCII text on one line)
        Ty::Int | Ty::Bit | Ty::Bits(_) => "\"keine_Zahl_\u{fc}\u{20ac}\u{1d11e}\"",
        Ty::Str | Ty::Code => "[1, 2]",
        Ty::Dag => "\"not_a_dag\"",
        Ty::List(_) => "\"not_a_list\"",
        Ty::Class(_) => "\"not_a_record\"",
    })
}
