//! The reference grammar (models/grammar.bnf): EBNF reader, desugaring to a CFG, an Earley recogniser over
//! terminal classes, and a coverage-forcing random deriver that keeps the derivation tree.
use crate::core::Rng;
use std::collections::{BTreeMap, HashSet};

#[derive(Clone, Debug, PartialEq, Eq, Hash, PartialOrd, Ord)]
pub enum Sym {
    T(String),  // terminal: "lit" (without quotes) or a class name ID/INT/STRING/CODE/VARNAME/BANGOP
    N(usize),   // nonterminal index
}

#[derive(Clone, Debug)]
pub struct Rule {
    pub lhs: usize,
    pub rhs: Vec<Sym>,
}

pub struct Grammar {
    pub names: Vec<String>,
    /// true for nonterminals that were written in the grammar file (not introduced by desugaring)
    pub named: Vec<bool>,
    pub rules: Vec<Rule>,
    pub by_lhs: Vec<Vec<usize>>,
    pub nullable: Vec<bool>,
    pub min_depth: Vec<u32>,
    pub rule_depth: Vec<u32>,
    pub start: usize,
}

// ---------------------------------------------------------------------------------------------- EBNF reader
#[derive(Clone, Debug)]
enum E {
    Lit(String),
    Name(String),
    Seq(Vec<E>),
    Alt(Vec<E>),
    Opt(Box<E>),
    Star(Box<E>),
    Plus(Box<E>),
    /// separated list; trailing: 0 never, 1 only in the loose grammar, 2 always optional
    SepList(Box<E>, String, u8),
}

struct P<'a> {
    toks: Vec<&'a str>,
    i: usize,
}
impl<'a> P<'a> {
    fn peek(&self) -> Option<&'a str> {
        self.toks.get(self.i).copied()
    }
    fn alt(&mut self) -> E {
        let mut alts = vec![self.seq()];
        while self.peek() == Some("|") {
            self.i += 1;
            alts.push(self.seq());
        }
        if alts.len() == 1 {
            alts.pop().unwrap()
        } else {
            E::Alt(alts)
        }
    }
    fn seq(&mut self) -> E {
        let mut items = Vec::new();
        while let Some(t) = self.peek() {
            if t == "|" || t == ")" {
                break;
            }
            items.push(self.postfix());
        }
        E::Seq(items)
    }
    fn postfix(&mut self) -> E {
        let mut e = self.atom();
        loop {
            match self.peek() {
                Some("?") => {
                    self.i += 1;
                    e = E::Opt(Box::new(e));
                }
                Some("*") => {
                    self.i += 1;
                    e = E::Star(Box::new(e));
                }
                Some("+") => {
                    self.i += 1;
                    e = E::Plus(Box::new(e));
                }
                Some(op @ ("%%" | "%%?" | "%%!")) => {
                    self.i += 1;
                    let sep = self.peek().unwrap().trim_matches('"').to_string();
                    self.i += 1;
                    e = E::SepList(Box::new(e), sep, match op { "%%" => 0, "%%?" => 1, _ => 2 });
                }
                _ => return e,
            }
        }
    }
    fn atom(&mut self) -> E {
        let t = self.peek().expect("unexpected end of rule");
        self.i += 1;
        if t == "(" {
            let e = self.alt();
            assert_eq!(self.peek(), Some(")"));
            self.i += 1;
            e
        } else if t.starts_with('"') {
            E::Lit(t.trim_matches('"').to_string())
        } else {
            E::Name(t.to_string())
        }
    }
}

fn tokenize_rule(s: &str) -> Vec<&str> {
    // quoted literals (no blanks inside), names, ( ) | ? * + and the list operators %% %%? %%!
    let b = s.as_bytes();
    let mut out = Vec::new();
    let mut i = 0;
    while i < b.len() {
        let c = b[i];
        if c.is_ascii_whitespace() {
            i += 1;
        } else if c == b'"' {
            let mut j = i + 1;
            while j < b.len() && b[j] != b'"' {
                j += 1;
            }
            // a literal that is itself a quote-free token; `"""` does not occur in the grammar file
            out.push(&s[i..=j.min(b.len() - 1)]);
            i = j + 1;
        } else if c == b'%' {
            let mut j = i;
            while j < b.len() && b[j] == b'%' {
                j += 1;
            }
            if j < b.len() && (b[j] == b'?' || b[j] == b'!') {
                j += 1;
            }
            out.push(&s[i..j]);
            i = j;
        } else if b"()|?*+".contains(&c) {
            out.push(&s[i..i + 1]);
            i += 1;
        } else {
            let mut j = i;
            while j < b.len() && (b[j].is_ascii_alphanumeric() || b[j] == b'_') {
                j += 1;
            }
            if j == i {
                j = i + 1;
            }
            out.push(&s[i..j]);
            i = j;
        }
    }
    out
}

pub const TERMINAL_CLASSES: [&str; 6] = ["ID", "INT", "STRING", "CODE", "VARNAME", "BANGOP"];

impl Grammar {
    pub fn load(loose: bool) -> Grammar {
        let text = std::fs::read_to_string(format!("{}/models/grammar.bnf", crate::core::VERIF_ROOT)).expect("models/grammar.bnf");
        Self::from_text(&text, loose)
    }
    pub fn from_text(text: &str, loose: bool) -> Grammar {
        let mut defs: Vec<(String, E)> = Vec::new();
        for line in text.lines() {
            let line = line.split(" #").next().unwrap_or("");
            let line = if line.starts_with('#') { "" } else { line };
            let Some((lhs, rhs)) = line.split_once("::=") else { continue };
            let toks = tokenize_rule(rhs);
            let mut p = P { toks, i: 0 };
            let e = p.alt();
            defs.push((lhs.trim().to_string(), e));
        }
        let mut g = Grammar { names: Vec::new(), named: Vec::new(), rules: Vec::new(), by_lhs: Vec::new(), nullable: Vec::new(), min_depth: Vec::new(), rule_depth: Vec::new(), start: 0 };
        let mut index: BTreeMap<String, usize> = BTreeMap::new();
        for (n, _) in &defs {
            index.insert(n.clone(), g.names.len());
            g.names.push(n.clone());
            g.named.push(true);
        }
        fn fresh(g: &mut Grammar, hint: &str) -> usize {
            g.names.push(format!("{}'{}", hint, g.names.len()));
            g.named.push(false);
            g.names.len() - 1
        }
        // lower an expression to a symbol sequence, adding helper rules
        fn lower(g: &mut Grammar, index: &BTreeMap<String, usize>, e: &E, loose: bool, hint: &str) -> Vec<Sym> {
            match e {
                E::Lit(l) => vec![Sym::T(l.clone())],
                E::Name(n) => {
                    if TERMINAL_CLASSES.contains(&n.as_str()) {
                        vec![Sym::T(n.clone())]
                    } else {
                        vec![Sym::N(*index.get(n).unwrap_or_else(|| panic!("undefined nonterminal {}", n)))]
                    }
                }
                E::Seq(items) => items.iter().flat_map(|i| lower(g, index, i, loose, hint)).collect(),
                E::Alt(alts) => {
                    let n = fresh(g, hint);
                    for a in alts {
                        let rhs = lower(g, index, a, loose, hint);
                        g.rules.push(Rule { lhs: n, rhs });
                    }
                    vec![Sym::N(n)]
                }
                E::Opt(x) => {
                    let n = fresh(g, hint);
                    let rhs = lower(g, index, x, loose, hint);
                    g.rules.push(Rule { lhs: n, rhs });
                    g.rules.push(Rule { lhs: n, rhs: vec![] });
                    vec![Sym::N(n)]
                }
                E::Star(x) => {
                    let n = fresh(g, hint);
                    let mut rhs = lower(g, index, x, loose, hint);
                    rhs.push(Sym::N(n));
                    g.rules.push(Rule { lhs: n, rhs: vec![] });
                    g.rules.push(Rule { lhs: n, rhs });
                    vec![Sym::N(n)]
                }
                E::Plus(x) => {
                    let n = fresh(g, hint);
                    let one = lower(g, index, x, loose, hint);
                    let mut more = one.clone();
                    more.push(Sym::N(n));
                    g.rules.push(Rule { lhs: n, rhs: one });
                    g.rules.push(Rule { lhs: n, rhs: more });
                    vec![Sym::N(n)]
                }
                E::SepList(x, sep, trailing) => {
                    // L ::= X Tail ; Tail ::= eps | sep X Tail | (sep, if trailing allowed)
                    let tail = fresh(g, hint);
                    let one = lower(g, index, x, loose, hint);
                    let mut more = vec![Sym::T(sep.clone())];
                    more.extend(one.clone());
                    more.push(Sym::N(tail));
                    g.rules.push(Rule { lhs: tail, rhs: vec![] });
                    g.rules.push(Rule { lhs: tail, rhs: more });
                    if *trailing == 2 || (*trailing == 1 && loose) {
                        g.rules.push(Rule { lhs: tail, rhs: vec![Sym::T(sep.clone())] });
                    }
                    let mut out = one;
                    out.push(Sym::N(tail));
                    out
                }
            }
        }
        for (name, e) in &defs {
            let lhs = index[name];
            let alts: Vec<E> = match e {
                E::Alt(a) => a.clone(),
                other => vec![other.clone()],
            };
            for a in alts {
                let rhs = lower(&mut g, &index, &a, loose, name);
                g.rules.push(Rule { lhs, rhs });
            }
        }
        g.start = index["SourceFile"];
        g.finish();
        g
    }
    fn finish(&mut self) {
        let n = self.names.len();
        self.by_lhs = vec![vec![]; n];
        for (i, r) in self.rules.iter().enumerate() {
            self.by_lhs[r.lhs].push(i);
        }
        // nullable
        self.nullable = vec![false; n];
        loop {
            let mut changed = false;
            for r in &self.rules {
                if !self.nullable[r.lhs] && r.rhs.iter().all(|s| matches!(s, Sym::N(k) if self.nullable[*k])) {
                    self.nullable[r.lhs] = true;
                    changed = true;
                }
            }
            if !changed {
                break;
            }
        }
        // minimal derivation depth per nonterminal / rule
        self.min_depth = vec![u32::MAX; n];
        self.rule_depth = vec![u32::MAX; self.rules.len()];
        loop {
            let mut changed = false;
            for (i, r) in self.rules.iter().enumerate() {
                let mut d = 0u32;
                let mut ok = true;
                for s in &r.rhs {
                    if let Sym::N(k) = s {
                        if self.min_depth[*k] == u32::MAX {
                            ok = false;
                            break;
                        }
                        d = d.max(self.min_depth[*k]);
                    }
                }
                if ok {
                    let d = d + 1;
                    if d < self.rule_depth[i] {
                        self.rule_depth[i] = d;
                        changed = true;
                    }
                    if d < self.min_depth[r.lhs] {
                        self.min_depth[r.lhs] = d;
                        changed = true;
                    }
                }
            }
            if !changed {
                break;
            }
        }
    }

    // ------------------------------------------------------------------------------------------ Earley
    /// Recognise a sequence of terminals. Err carries the index of the first token that cannot be shifted (or
    /// len if the input ends too early) and the names of the written nonterminals that were in progress there.
    pub fn recognise(&self, input: &[String]) -> Result<(), (usize, Vec<String>)> {
        #[derive(Clone, Copy, PartialEq, Eq, Hash)]
        struct Item {
            rule: u32,
            dot: u16,
            origin: u32,
        }
        let n = input.len();
        let mut sets: Vec<Vec<Item>> = vec![Vec::new(); n + 1];
        let mut seen: Vec<HashSet<Item>> = vec![HashSet::new(); n + 1];
        let add = |sets: &mut Vec<Vec<Item>>, seen: &mut Vec<HashSet<Item>>, k: usize, it: Item| {
            if seen[k].insert(it) {
                sets[k].push(it);
            }
        };
        for &r in &self.by_lhs[self.start] {
            add(&mut sets, &mut seen, 0, Item { rule: r as u32, dot: 0, origin: 0 });
        }
        for k in 0..=n {
            let mut i = 0;
            while i < sets[k].len() {
                let it = sets[k][i];
                i += 1;
                let rule = &self.rules[it.rule as usize];
                if (it.dot as usize) < rule.rhs.len() {
                    match &rule.rhs[it.dot as usize] {
                        Sym::N(nt) => {
                            for &r in &self.by_lhs[*nt] {
                                add(&mut sets, &mut seen, k, Item { rule: r as u32, dot: 0, origin: k as u32 });
                            }
                            if self.nullable[*nt] {
                                add(&mut sets, &mut seen, k, Item { rule: it.rule, dot: it.dot + 1, origin: it.origin });
                            }
                        }
                        Sym::T(t) => {
                            if k < n && &input[k] == t {
                                add(&mut sets, &mut seen, k + 1, Item { rule: it.rule, dot: it.dot + 1, origin: it.origin });
                            }
                        }
                    }
                } else {
                    // completion
                    let lhs = rule.lhs;
                    let origin = it.origin as usize;
                    let mut j = 0;
                    while j < sets[origin].len() {
                        let p = sets[origin][j];
                        j += 1;
                        let pr = &self.rules[p.rule as usize];
                        if (p.dot as usize) < pr.rhs.len() && pr.rhs[p.dot as usize] == Sym::N(lhs) {
                            add(&mut sets, &mut seen, k, Item { rule: p.rule, dot: p.dot + 1, origin: p.origin });
                        }
                    }
                }
            }
            if k < n && sets[k + 1].is_empty() {
                // failure at token k: which written nonterminals were in progress (had consumed something)
                let mut active: Vec<String> = sets[k]
                    .iter()
                    .filter(|it| it.dot > 0 && (it.dot as usize) < self.rules[it.rule as usize].rhs.len())
                    .map(|it| self.names[self.rules[it.rule as usize].lhs].split('\'').next().unwrap_or("").to_string())
                    .collect();
                active.sort();
                active.dedup();
                return Err((k, active));
            }
        }
        let accepted = sets[n].iter().any(|it| {
            let r = &self.rules[it.rule as usize];
            r.lhs == self.start && it.origin == 0 && it.dot as usize == r.rhs.len()
        });
        if accepted {
            Ok(())
        } else {
            let mut active: Vec<String> = sets[n]
                .iter()
                .filter(|it| it.dot > 0 && (it.dot as usize) < self.rules[it.rule as usize].rhs.len())
                .map(|it| self.names[self.rules[it.rule as usize].lhs].split('\'').next().unwrap_or("").to_string())
                .collect();
            active.sort();
            active.dedup();
            Err((n, active))
        }
    }
}

// ---------------------------------------------------------------------------------------------- derivations
#[derive(Clone, Debug)]
pub struct DNode {
    pub nt: usize,
    pub rule: usize,
    /// token index range [first, last) in the sentence
    pub toks: (usize, usize),
    pub children: Vec<DNode>,
}

pub struct Deriver<'g> {
    pub g: &'g Grammar,
    /// how often each rule has been used (coverage); the least used alternative is preferred
    pub used: Vec<u64>,
}

impl<'g> Deriver<'g> {
    pub fn new(g: &'g Grammar) -> Self {
        Deriver { g, used: vec![0; g.rules.len()] }
    }
    /// derive `nt` into `out` (terminals); depth budget forces minimal alternatives near the limit
    pub fn derive(&mut self, nt: usize, budget: u32, rng: &mut Rng, out: &mut Vec<String>) -> DNode {
        let alts = &self.g.by_lhs[nt];
        let feasible: Vec<usize> = alts.iter().copied().filter(|r| self.g.rule_depth[*r] <= budget.max(self.g.min_depth[nt])).collect();
        let pool = if feasible.is_empty() { alts.clone() } else { feasible };
        // least-used first (round robin through every alternative and optional part), random among ties,
        // with some pure randomness so that combinations vary
        let rule = if rng.chance(1, 4) {
            pool[rng.below(pool.len())]
        } else {
            let m = pool.iter().map(|r| self.used[*r]).min().unwrap();
            let least: Vec<usize> = pool.iter().copied().filter(|r| self.used[*r] == m).collect();
            least[rng.below(least.len())]
        };
        self.used[rule] += 1;
        let start = out.len();
        let mut children = Vec::new();
        let rhs = self.g.rules[rule].rhs.clone();
        for s in rhs {
            match s {
                Sym::T(t) => out.push(t),
                Sym::N(k) => {
                    let c = self.derive(k, budget.saturating_sub(1), rng, out);
                    children.push(c);
                }
            }
        }
        DNode { nt, rule, toks: (start, out.len()), children }
    }
}
