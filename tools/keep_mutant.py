#!/usr/bin/env python3
"""tools/keep_mutant.py <worktree> <prop id> <m> <caught-by text> : copy a confirmed seeded change to /verif/seeded/<id>-<m>/"""
import json, os, shutil, sys
wt, pid, m, caught = sys.argv[1:5]
src = f"{wt}/seeded_out/{m}"
dst = f"/verif/seeded/{pid}-{m}"
os.makedirs(dst, exist_ok=True)
shutil.copy(f"{src}/patch.diff", f"{dst}/patch.diff")
if os.path.isdir(f"{dst}/demo"): shutil.rmtree(f"{dst}/demo")
shutil.copytree(f"{src}/demo", f"{dst}/demo")
meta = json.load(open(f"{src}/meta.json"))
out = {
  "property": pid,
  "summary": meta.get("summary"),
  "needs": meta.get("needs"),
  "demo_cmd": meta.get("demo_cmd"),
  "author": "independent sub-agent given only the property text and a scratch worktree",
  "confirmed": {
     "how": "tools/confirm_mutant.sh in the scratch worktree: patch applied -> cargo test --workspace --offline all green and `cargo build -p lsp --features verif` ok and the demonstration fails; patch reverted -> the demonstration passes",
     "observed_with_change": meta.get("observed_with_change"),
     "observed_without_change": meta.get("observed_without_change"),
  },
  "checks_run": "tools/try_mutant.sh: git -C /repo apply patch.diff; ./check <id> quick; git -C /repo checkout -- .",
  "caught_by": caught,
}
json.dump(out, open(f"{dst}/meta.json", "w"), indent=1)
print("kept", dst)
