#!/bin/bash
# tools/confirm_mutant.sh <worktree> <m1|m2>  : confirm a seeded change in its scratch worktree:
#   with the change: the repository's tests pass and the demonstration FAILS; without it the demonstration PASSES.
set -u
WT="$1"; M="$2"; cd "$WT" || exit 9
CMD=$(python3 - "$M" <<'PY'
import json,re,sys
c=json.load(open('seeded_out/%s/meta.json'%sys.argv[1]))['demo_cmd']
c=re.sub(r'\([^)]*\)','',c)            # parenthetical remarks
c=re.sub(r'\s*;\s*rm -rf [^;&]*$','',c)  # trailing clean-up would mask the exit code
print(c.strip())
PY
)
git checkout -q -- . ; git clean -fdq crates >/dev/null 2>&1
git apply "seeded_out/$M/patch.diff" || { echo "APPLY-FAILED"; exit 8; }
T=$(timeout 900 cargo test --workspace --offline 2>&1 | grep -E "^test result" | grep -vc " 0 failed")
B=$(cargo build --offline -p lsp --features verif 2>&1 | grep -c "^error")
mkdir -p crates/syntax/tests crates/ide/tests crates/lsp/tests crates/syntax/examples crates/ide/examples crates/lsp/examples; timeout 300 bash -c "$CMD" >/tmp/demo_with.log 2>&1; W=$?
git checkout -q -- .
mkdir -p crates/syntax/tests crates/ide/tests crates/lsp/tests crates/syntax/examples crates/ide/examples crates/lsp/examples; timeout 300 bash -c "$CMD" >/tmp/demo_without.log 2>&1; O=$?
git clean -fdq crates >/dev/null 2>&1; git checkout -q -- .
echo "tests_failing_suites_with_change=$T verif_build_errors=$B demo_exit_with_change=$W demo_exit_without_change=$O"
