#!/bin/bash
# tools/run_all.sh <quick|thorough> [seed]  : every check once on the current tree; prints id, exit code, verdict line, seconds
TIER="${1:-quick}"; export VERIF_SEED="${2:-1}"
cd /verif
for i in $(seq -w 1 20); do
  id="C$i"; t0=$(date +%s)
  out=$(./check "$id" "$TIER" 2>&1); code=$?
  t1=$(date +%s)
  echo "$id exit=$code $((t1-t0))s $(echo "$out" | grep -E "^\[$id\]" | tail -1) $(echo "$out" | grep -cE "^VIOLATION") viol $(echo "$out" | grep -E "^INCONCLUSIVE" | cut -c1-160)"
done
