#!/usr/bin/env python3
"""tools/make_prompt.py <prop id> <worktree dir> <name1> <name2> : print the prompt for a fresh sub-agent that is to
write two seeded changes for one property. It contains the property text and one-paragraph descriptions of the
changes already kept for that property (descriptions of source changes only - nothing about /verif)."""
import json, os, re, sys
pid, wt, n1, n2 = sys.argv[1:5]
prop = [json.loads(l) for l in open('/verif/properties.jsonl') if json.loads(l)['id'] == pid][0]
prev = []
for d in sorted(os.listdir('/verif/seeded')):
    p = f'/verif/seeded/{d}/meta.json'
    if os.path.exists(p):
        m = json.load(open(p))
        if m.get('property') == pid:
            prev.append(re.sub(r'\s+', ' ', m.get('summary') or ''))
print(f"""You are helping test a verification framework for the Rust project tablegen-lsp (a language server for LLVM TableGen: crates/syntax = lexer, preprocessor, rowan parser; crates/ide = indexer/type checker/IDE queries behind salsa; crates/lsp = async-lsp server; the shipped binary is crates/lsp/src/main.rs, a #[tokio::main] program).

You have your OWN scratch git worktree of the repository at: {wt}
Work ONLY inside that directory. Do not read or touch /verif or /repo. Build with `cargo ... --offline` (there is no network). The crates have a cargo feature `verif` (off by default): ignore it and leave it alone.

The property under test is:

Property {pid}: {prop['title']}

Statement: {prop['statement']}

Quantified over: {prop['quantifier']['text']}


YOUR TASK: make TWO different source changes (call them {n1} and {n2}) to the project, each of which BREAKS this property as stated (not a neighbouring property, and not something the statement leaves open), while the project still compiles and the existing test suite still passes unchanged (`cargo test --workspace --offline` must be all green WITH your change; do not edit or add tests under the existing test modules or snapshots).

Requirements for each change:
- It must be realistic: the kind of slip a maintainer could make in a refactoring or a "small improvement" (an off-by-one, a dropped or reordered call, a wrong branch condition, a cache that is not invalidated, a lock moved, an early return, an edge case not handled...). Not sabotage like `panic!()` at the top of a function.
- It must need something SPECIFIC to manifest: an unusual input, a particular nesting, a multi-step sequence of operations, a particular interleaving, two sites that each look fine alone. Ordinary everyday use should NOT expose it at once. Prefer subtle over blatant. {n1} and {n2} should exercise different mechanisms.
- The input that exposes it must be inside the property's domain (for properties about well-formed programs: a program that LLVM's own llvm-tblgen accepts; /usr/bin/llvm-tblgen is installed and you can check with it).
- It must manifest in the server as shipped (crates/lsp/src/main.rs), not only under a different runtime layout.
- It must compile without the `verif` feature and with it (`cargo build --offline` and `cargo build --offline -p lsp --features verif`).

For each change provide a DEMONSTRATION: a small self-contained Rust test file or example program (put it under {wt}/seeded_out/<{n1}|{n2}>/demo/, e.g. a file to drop into crates/<crate>/tests/ or crates/<crate>/examples/, with the exact command to run it, including `mkdir -p` of the tests directory if it does not exist) that FAILS (or prints a wrong result / hangs / panics) with the change applied and PASSES on the unchanged tree. Actually run it both ways and record what you observed.

Deliverables, for each of {n1} and {n2}, under {wt}/seeded_out/<{n1}|{n2}>/:
- patch.diff  : `git diff` of ONLY the source change (not the demo), applicable with `git apply` at the worktree's HEAD
- demo/       : the demonstration file(s)
- meta.json   : {{"property": "{pid}", "summary": "...what was changed...", "needs": "...what specific input/sequence/interleaving makes it manifest...", "demo_cmd": "...", "observed_with_change": "...", "observed_without_change": "...", "tests_pass_with_change": true}}

When done, leave the worktree with NO source change applied (git checkout the sources; keep seeded_out/). Finish with a short summary of the two changes. You have a time budget of roughly 30-40 minutes; if {n2} does not work out, deliver {n1} alone.
""")
if prev:
    print("This is a LATER round. The following changes have already been made by others for this property; do NOT repeat them or close variants of them - find different mechanisms and different parts of the code, and prefer changes that are harder to notice (they should survive a reviewer who samples typical inputs):")
    for s in prev:
        print("- " + (s[:700] + ('...' if len(s) > 700 else '')))
