#!/usr/bin/env python3
"""Validates MANIFEST.json and every evidence/<id>.json against the given schemas."""
import json, glob, sys, jsonschema
ms = json.load(open('/root/.vp/MANIFEST.schema.json')); es = json.load(open('/root/.vp/EVIDENCE.schema.json'))
m = json.load(open('/verif/MANIFEST.json')); jsonschema.validate(m, ms)
ok = True
ids = [c['property_id'] for c in m['checks']]
for i in ids:
    try:
        e = json.load(open(f'/verif/evidence/{i}.json')); jsonschema.validate(e, es)
        assert e['property_id'] == i and e['coverage']['distinct_nontrivial'] >= 2
    except Exception as ex:
        ok = False; print('BAD', i, str(ex)[:200])
print('manifest ok;', len(ids), 'checks;', 'evidence ok' if ok else 'EVIDENCE PROBLEMS')
sys.exit(0 if ok else 1)
