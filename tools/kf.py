#!/usr/bin/env python3
"""tools/kf.py fixed <prop> <commit> <signature> <what>   |   tools/kf.py open <prop> <signature> <what> [witness]
Appends an entry to /verif/known_findings.json (edited only by hand / by this tool in a commit, never at check run time)."""
import json, sys
p = "/verif/known_findings.json"
d = json.load(open(p))
kind = sys.argv[1]
if kind == "fixed":
    _, _, prop, commit, sig, what = sys.argv[:6]
    d.append({"status": "fixed", "property": prop, "commit": commit, "signature": sig, "what": what,
              "line": "fixed: property=%s %s %s" % (prop, commit, what)})
else:
    prop, sig, what = sys.argv[2:5]
    e = {"status": "open", "property": prop, "signature": sig, "what": what}
    if len(sys.argv) > 5:
        e["witness"] = sys.argv[5]
    d.append(e)
json.dump(d, open(p, "w"), indent=1)
print(len(d), "entries")
