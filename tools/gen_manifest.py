#!/usr/bin/env python3
"""Regenerates /verif/MANIFEST.json from the table below (kept in one place so it stays valid)."""
import json, subprocess, sys
ALL = ["C%02d" % i for i in range(1, 21)]

# id -> (technique, level text, level note, design ref)
CHECKS = {
 "C01": ("invariant monitor on syntax::parse (tokens tile the input) over exhaustive small-scope, mutated and corpus inputs",
         "Exploration: every sequence of <=3 (thorough <=4) lexemes of a 109-lexeme alphabet covering every token class, valid and invalid, glued and space-joined, is parsed and the tree walked; plus stacked random mutations of real and hand-written programs, disabled preprocessor regions, and prefixes/windows of the 39-file LLVM corpus. Held means: no input among those observed had a gap, overlap, wrong slice or lost byte, and every parse ended within its step budget (64 hook steps per byte) and produced a tree.",
         "rowan reports the tree that was built; inputs outside the explored space are unexamined", "5/C01"),
 "C02": ("panic / stack-overflow / hook step-budget monitor on syntax::parse over the C01 space plus depth-256 nesting towers and unterminated-construct splices",
         "Exploration: same input space as C01 plus 8 tower shapes at every depth 1..256 on the 2 MiB stack the server uses and unterminated constructs at every token boundary; non-progress is decided by the step-counter hook (no wall clock), linear work by steps <= K*(lexer tokens+1) with a fixed K, error well-formedness per SyntaxError.",
         "step hook sits at Lexer::next_token, ParserBase::{lex,start_node,start_node_at,error}; a loop touching none of them would only show as a CPU-budget violation", "5/C02"),
 "C10": ("differential monitor of LineIndex/to_proto::position/from_proto::position against an independent reference mapper, exhaustive small-scope strings + random texts",
         "Exploration, exhaustive on its small scope: every string of length <=5 (thorough <=6) over a 9-character alphabet (ASCII, space, LF, CR, 2/3/4-byte characters, FF, U+2028) x every char-boundary offset x every (line, column<=width+1), plus random long texts and corpus files in LF and CRLF form. Each conversion is compared with refpos.rs and round-tripped.",
         "refpos.rs (written from the LSP specification) is trusted; positions beyond the last line or splitting a surrogate pair are not demanded", "5/C10"),
 "C15": ("differential monitor of syntax::parse against a reference conditional evaluator (refpp) over exhaustive directive sequences; ide-level leak monitor on random nestings",
         "Exploration, exhaustive on its small scope: every sequence of <=6 (thorough <=8) items over 11 directive/marker items; token selection compared with refpp on the well-nested ones, an error demanded on the unterminated and nameless ones; each also re-rendered with lexically bad disabled text, directive words in comments/strings, comments glued to directives and directive words in another letter case (which are not directives); plus random depth<=4 nestings analysed by ide with declarations and undefined references hidden in disabled regions.",
         "refpp is trusted; a macro name must be on the directive's line (LLVM semantics); error recognition is by message keywords (endif/EOF, macro name)", "5/C15"),
 "C16": ("reference-model monitor (graph reachability, link/diagnostic/outline expectations) + hook step budget over exhaustive small include graphs and random larger ones",
         "Exploration, exhaustive on its small scope: all edge sets incl. self-loops over <=3 files x all roots and all 65536 edge sets over 4 files; random 3-6 file graphs with sub-directories, INCLUDE_DIR search path, shadowed names, missing targets. Termination is decided by the hook step counter, the rest by comparison with a reference reachability model.",
         "reference resolution order = including file's directory, then INCLUDE_DIR; files are tiny (one class each)", "5/C16"),
 "C14": ("differential monitor of the public Lexer against expectations known by construction, cross-checked by an independent reference lexer; llvm-tblgen audit of the generator",
         "Exploration: exhaustive (representative x separator x representative) triples over all keywords, all reference bang operators, all punctuation and boundary literals with 10 separators incl. nested block comments; random sequences of instances sampled from each class's regular language (quick 1.5e5, thorough 1e7 tokens); the 39 corpus files token-by-token against reflex.rs.",
         "reflex.rs / the generator embody the reference's token grammar (LLVM TGLexer for corners); tblgen 14 audits a sample of literal instances; 0x/0b-like digit-leading identifiers and code bodies ending in '}' are not generated (LLVM corner cases)", "5/C14"),
 "C20": ("closure monitor: completion answers re-lexed and re-parsed by the server's own lexer/parser; class completion compared with generated workspaces",
         "Exploration, exhaustive over the finite vocabularies: all items offered at 9 fixtures x the lexer's tables, both directions (offered => lexes as that token and starts an accepted statement; lexer-accepted operator => offered); class completion on random workspaces (root + include, arities 0-3, every prefix length, open and closed statements). Eight table defects are listed as known findings because the table is pinned by a snapshot test.",
         "independent name tables spelling -> token kind; candidate operator names = reference list + variants + everything offered", "5/C20"),
 "C05": ("reference-model monitor: go-to-definition / find-references compared with the use->declaration map of a scope-tracking program generator, llvm-tblgen-audited",
         "Exploration: quick 1 280 / thorough ~100 000 generated multi-file programs; every recorded use probed at first/middle/last byte, every declaration's reference set compared, one dead use (name used after its construct ended) in every third program, per use-position / declaration-kind / construct coverage floors.",
         "the generator's symbol table is the language model (audited by llvm-tblgen 14 for acceptance / rejection); ambiguous corners are not generated (DESIGN 5/C05)", "5/C05"),
 "C13": ("fault-seeding monitor: diagnostics of clean and single-fault generated programs, every sample audited by llvm-tblgen 14",
         "Exploration / fault enumeration over generated programs: clean programs must have no diagnostic in any file; 12 fault classes (undefined class / multiclass / identifier / include, missing / surplus template argument, incompatible initialiser / let / argument, operator arity, deleted / inserted token, in root and included files) visited round-robin, 1-2 sites per class per program; a diagnostic must overlap the site, earlier included files stay clean.",
         "only faults that no grammatical continuation can absorb are seeded (deleted ';' or '=', inserted non-token characters); tblgen must accept the clean and reject the faulty sample or it is discarded", "5/C13"),
 "C18": ("reference-model monitor: document symbols and folding ranges compared with the outline / statement list known by construction",
         "Exploration: generated programs with declarations nested in foreach/if/let/defset/multiclass, optional parts present and absent; outline tree equality per file (order, kind, name, identifier range, children) and folding ranges one-to-one with statements, exact ends, laminar.",
         "pasted def names are not generated here (their outline name is not fixed by the statement)", "5/C18"),
 "C19": ("reference-model monitor: hover signatures / doc comments and inlay hints compared with declarations, comment layout and argument bindings known by construction",
         "Exploration: hover on every declaration and every correctly resolving use (kind keyword, name, declared type; exactly the adjacent // lines, with blank-line, block-comment and trailing-comment counter-cases); inlay hints over the full file (equality) and over random, cutting and empty sub-ranges (soundness + inside-range).",
         "hover is only demanded where go-to-definition itself is right (C05 owns resolution); hints on top-level let items are not demanded either way", "5/C19"),
 "C03": ("panic / stack-overflow / CPU-budget monitor over the full query sweep on typed-through workspace states (worker processes on 2 MiB stacks, crashes attributed through a shared-memory slot)",
         "Exploration: generated multi-file programs, their token prefixes, character-cut prefixes and single-token edits in root and included file, 28 semantic stress patterns with all prefixes, the 39 corpus files; on each state every query kind at every offset (all char boundaries for small files) incl. empty and arbitrary inlay-hint ranges. Each query individually guarded; hard crashes classified by the supervisor.",
         "include cycles belong to C16; offsets beyond the text and files outside the workspace are not requested", "5/C03"),
 "C06": ("invariant monitor relating go-to-definition / find-references answers to identifier tokens of a fresh parse, on arbitrary (also malformed) workspaces",
         "Exploration over the same state space as C03: at every swept offset where go-to-definition answers, the four coherence conditions of the statement are evaluated (quick: ~1.2e6 answering offsets, ~1.4e6 reference round trips).",
         "identifier tokens are taken from syntax::parse of the named file's current text", "5/C06"),
 "C07": ("differential monitor: long-lived AnalysisHost after every step of an edit / root-switch history vs a from-scratch host on the final state, full query sweep",
         "Exploration over histories: random 8-12 step histories over generated 2-4 file workspaces with include-changing, shifting, breaking and replacing edits, root switches and file removals, compared after every step; all two-step histories over a 6-operation pool per unit.",
         "every text change is paired with set_root_file as the server does; results normalised only by FileId->path and sorting of hash-ordered collections", "5/C07"),
 "C17": ("invariant monitor on every range of every query result against current file texts and the workspace key set",
         "Exploration over the same state space as C03 with non-ASCII text glued to identifiers and CRLF: every range of every result is checked for workspace membership, bounds and UTF-8 boundaries (quick: ~4e6 ranges).",
         "the workspace is the key set of diagnostics()", "5/C17"),
 "C08": ("controlled-scheduler enumeration of thread interleavings at hooked synchronisation points on the real server, online wait-for-graph deadlock monitor; seeded-delay stress sessions",
         "Exploration of schedules: the hook callback blocks server threads at their acquisition points, a scheduler grants one at a time consistently with a lock model and enumerates all grant orders by re-running the real server with forced choice prefixes: 3 handlers x 9 in-flight task kinds (thorough: all two-task combinations). Deadlock = waiting threads none of which can be granted, witnessed by a wait-for cycle over lock holders; no timing verdicts. Plus stress sessions with injected delays monitored by the same graph.",
         "only the hooked acquisition points are controlled; an un-hooked lock shows as a watchdog (no verdict) or in stress; std RwLock queueing policy is not modelled", "5/C08"),
 "C09": ("differential monitor at the JSON-RPC boundary: the real server's answers vs ide-level results converted by an independent position mapper using the text of the file each range belongs to",
         "Exploration: generated multi-file workspaces with different line structures, non-ASCII, CRLF, seeded faults; definition + references at up to 60/200 identifier positions, documentSymbol / foldingRange / documentLink / inlayHint for every file, publishDiagnostics per URI.",
         "refpos.rs is the position mapper; quiescence is logical (hook counters + barrier requests)", "5/C09"),
 "C11": ("offline checker over the recorded notification stream at logically quiescent points against a reference session model; version monotonicity on arrival order",
         "Exploration of histories: all didOpen/didChange histories of length <=3 (thorough 4) over a 6-action pool of two documents, stepwise and as bursts, plus random 4-8 step histories over three chained documents with includes added/removed and unique fault markers; last publication per URI compared with a fresh analysis of the final state, files that left the workspace must be cleared.",
         "disk is kept equal to the editor text so that C12 cannot interfere; refsession = overlay of buffers on disk, root = last touched", "5/C11"),
 "C12": ("marker-based reference-session monitor (provenance of every visible text: disk vs editor, per document and version) over recorded LSP sessions",
         "Exploration of the same session space as C11 with disk texts that differ from everything the editor sends: diagnostics markers and documentSymbol outlines of every workspace document must come from the editor text for opened documents (also when reached only through an include) and from disk for never-opened ones.",
         "markers are unique class names per (document, origin, version)", "5/C12"),
 "C04": ("grammar-directed sentence generation with forced rule coverage + typed-accessor walk monitor (positive); Earley-decided token mutants (negative); corpus",
         "Exploration: the reference grammar (models/grammar.bnf = syntax.md + rule comments) is read at run time; quick ~7 500 / thorough ~2.5e5 random derivations that cycle through every alternative must parse with zero errors and expose every node-denoting constituent, with its exact token span and in source order, to a walk that uses only the typed accessors; 8-20 token mutants per sentence are classified by an independent Earley recogniser (with the trailing-separator allowance) and non-sentences must yield an error; the 39 LLVM files parse cleanly. Eleven by-the-letter deviations of the deliberately lenient / LLVM-conformant parser are listed as known findings.",
         "grammar.bnf transcription rules are in DESIGN.md 5/C04; token classes come from reflex.rs; ambiguous constructs of the documented grammar (foreach initialiser, dangling else) are not demanded", "5/C04"),
}
NOT_YET = "check under construction in this session; not claimed yet"

def main():
    hooks_commits = subprocess.run(["git", "-C", "/repo", "log", "--format=%h %s", "--grep=^verif hook"], capture_output=True, text=True).stdout.strip().splitlines()
    m = {
        "version": 1,
        "setup_cmd": "cd /verif/harness && CARGO_NET_OFFLINE=true cargo build --release --offline -p vcheck -p lsp",
        "hooks": {
            "guard": "cargo feature `verif` (crates syntax, ide, lsp); off by default",
            "enable": "the harness depends on /repo/crates/{syntax,ide,lsp} by path with features=[\"verif\"]; ./check rebuilds it with `cargo build --release --offline -p vcheck -p lsp` (harness + the shipped binary, same tree) before every run",
            "baseline_off_cmd": "cd /repo && cargo test --workspace --no-fail-fast --offline",
            "source_commits": [c.split()[0] for c in hooks_commits],
            "add_only": True,
        },
        "engines": [
            {"name": "vcheck", "path": "/verif/harness/vcheck", "serves_properties": sorted(CHECKS), "kind_free_text": "Rust supervisor + 16 worker processes running the real crates under generated workloads with monitors; crash/CPU-budget classification; known-finding matching; evidence writer"},
        ],
        "checks": [],
        "not_applicable": [],
        "notes": "exit 0 = held on everything observed (KNOWN-FINDING lines for entries of known_findings.json), 1 = VIOLATION, 2 = INCONCLUSIVE (never printed together with VIOLATION). VERIF_SEED and VERIF_TIER are honoured.",
    }
    for cid in ALL:
        if cid in CHECKS:
            tech, text, note, ref = CHECKS[cid]
            m["checks"].append({
                "property_id": cid,
                "quick_cmd": "./check %s quick" % cid,
                "thorough_cmd": "./check %s thorough" % cid,
                "evidence_file": "/verif/evidence/%s.json" % cid,
                "replay_cmd_template": "./check %s --replay {path}" % cid,
                "engine": "vcheck",
                "level_claimed": {"category": "exploration", "text": text, "design_ref": "DESIGN.md section " + ref},
                "level_note": note,
                "technique": tech,
            })
        else:
            m["not_applicable"].append({"property_id": cid, "reason": NOT_YET})
    json.dump(m, open("/verif/MANIFEST.json", "w"), indent=1)
    try:
        import jsonschema
        jsonschema.validate(m, json.load(open("/root/.vp/MANIFEST.schema.json")))
        print("MANIFEST.json valid;", len(m["checks"]), "checks")
    except ImportError:
        print("jsonschema not importable here; wrote MANIFEST.json without validating")

main()
