#!/bin/bash
# tools/regress_seeded.sh [pattern] : re-run every kept seeded change against the quick checks named in its meta.json
# (its own property + every Cxx mentioned in caught_by); prints one line per change; CAUGHT needs an exit code 1.
cd /verif
for d in seeded/${1:-C}*/; do
  id=$(basename "$d"); [ -f "$d/meta.json" ] || continue
  checks=$(python3 - "$d/meta.json" <<'PY'
import json,re,sys
m=json.load(open(sys.argv[1]))
c=[]
for x in re.findall(r'C\d\d', m.get('caught_by','')):
    if x not in c: c.append(x)
if not c: c=[m['property']]
print(' '.join(c))
PY
)
  out=$(tools/try_mutant.sh "/verif/$d/patch.diff" $checks 2>&1 | grep -E "exit=|REPO DIRTY|DOES NOT APPLY")
  if echo "$out" | grep -q "exit=1"; then echo "CAUGHT $id [$(echo "$out" | grep "exit=1" | head -2 | cut -c1-90 | tr '\n' ';')]"; else echo "MISSED $id [$(echo "$out" | cut -c1-120 | tr '\n' ';')]"; fi
done
