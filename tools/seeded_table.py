#!/usr/bin/env python3
"""tools/seeded_table.py : regenerate the table of kept seeded changes in DESIGN.md (between the markers
<!-- seeded-table:begin --> and <!-- seeded-table:end -->) from /verif/seeded/*/meta.json."""
import json, os, re

root = "/verif/seeded"
rows = []
for d in sorted(os.listdir(root)):
    p = f"{root}/{d}/meta.json"
    if d.startswith("_") or not os.path.exists(p):
        continue
    m = json.load(open(p))
    summ = re.sub(r"\s+", " ", (m.get("summary") or "")).replace("|", "/")
    caught = re.sub(r"\s+", " ", (m.get("caught_by") or "")).replace("|", "/")
    if len(summ) > 260:
        summ = summ[:257] + "..."
    rows.append(f"| {d} | {summ} | {caught} |")
table = "| id | change (by an independent sub-agent) | caught by |\n|---|---|---|\n" + "\n".join(rows) + "\n"
path = "/verif/DESIGN.md"
s = open(path).read()
b, e = "<!-- seeded-table:begin -->\n", "<!-- seeded-table:end -->\n"
if b in s and e in s:
    s = s[: s.index(b) + len(b)] + table + s[s.index(e):]
else:
    # first use: replace the old table (from its header line to the end of the table block)
    i = s.index("| id | change (by an independent sub-agent) | caught by |")
    j = i
    lines = s[i:].split("\n")
    n = 0
    for l in lines:
        if l.startswith("|"):
            n += len(l) + 1
        else:
            break
    s = s[:i] + b + table + e + s[i + n:]
open(path, "w").write(s)
print(len(rows), "rows")
