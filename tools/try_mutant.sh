#!/bin/bash
# tools/try_mutant.sh <patch.diff> <check id>...   apply a seeded change to /repo, run the quick checks, undo it.
# Prints one line per check: <id> exit=<code> <signatures...>
set -u
PATCH="$1"; shift
cd /repo || exit 9
if [ -n "$(git status --porcelain --untracked-files=no)" ]; then echo "REPO DIRTY"; exit 9; fi
if ! git apply --3way "$PATCH" >/tmp/apply.log 2>&1; then echo "PATCH DOES NOT APPLY: $(tail -1 /tmp/apply.log)"; git checkout -- . ; git reset -q; exit 8; fi
git reset -q
cd /verif
for id in "$@"; do
  out=$(timeout 1500 ./check "$id" quick 2>&1); code=$?
  sigs=$(echo "$out" | grep "^  \[$id\]" | sed "s/^  \[$id\] //; s/ -- .*//" | head -4 | tr '\n' '|')
  inc=$(echo "$out" | grep "^INCONCLUSIVE" | cut -c1-200)
  echo "$id exit=$code $sigs $inc"
done
cd /repo && git checkout -- . && git status --porcelain --untracked-files=no | head -3
